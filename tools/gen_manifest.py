#!/usr/bin/env python3
"""Regenerates /verif/MANIFEST.json (kept by hand-edited tables below)."""
import json
P = {
 "C01": ("exploration", "seeded round trips (entries x writer knobs x benign I/O schedule) through simulated sink and source, judged against a sorted-vector model", "5/C01"),
 "C02": ("exploration", "per-file probe sets covering every key/gap/edge class x {GE,LE,EQ} on reset cursors vs model ceiling/floor/match", "5/C02"),
 "C03": ("exploration", "seeded operation histories over up to 3 cursors (clone interleaving, clones sharing one file position, sources handed over at any position, block-crossing macro steps, one transient source fault after which the history continues) judged op by op against a reference model; cursor-state fingerprints measure reach", "5/C03"),
 "C04": ("exploration", "all 9 bound shapes, inverted/equal/empty ranges, both directions, sequentially and as interleaved iterator pairs on reader clones, vs model filter", "5/C04"),
 "C05": ("exploration", "prefix queries incl. empty/0xFF/longer-than-any-key/word-sized with carry, both directions, sequentially and as interleaved iterator pairs on reader clones, vs model starts_with", "5/C05"),
 "C06": ("exploration", "k-way merges (k 0..70 and one reserved merge of 65537+ sources, overlap patterns, add/push/extend, both output modes, five merge functions incl. one returning a borrowed sub-slice) vs model union + recorded merge calls", "5/C06"),
 "C07": ("exploration", "same insert history under 3 spill/realloc/chunk-merge knob settings x consumption modes vs sort-and-merge model (spill schedule is the simulated dimension)", "5/C07"),
 "C08": ("exploration", "resource monitors at the chunk-creator seam (volume since last spill, live chunks, accounting) in the small-entry regime, plus hook-free real-scale runs with heap high-water mark", "5/C08"),
 "C09": ("exploration", "independent decoder (tiling, framing, offset tables, index linkage, trailer) + grenad 0.4.7 reader/writer both ways", "5/C09"),
 "C10": ("exploration", "constructed V1-trailer twins queried (scan, seeks, history, iterators) vs model and vs the V2 twin", "5/C10"),
 "C11": ("exploration", "differential execution of every scenario kind under Whole vs Chop{1} vs generated palette vs ChopIntr: identical bytes and transcripts", "5/C11"),
 "C12": ("fault_enumeration", "for each generated scenario, every component call k (read/write/flush/seek/create/merge on one shared clock) is failed once (one scenario in four a second time with UnexpectedEof everywhere), plus double faults and devices that stay broken; the call in progress must return the matching Err, never panic, never Ok", "5/C12"),
 "C13": ("fault_enumeration", "for each generated file every truncation length (crash point), every single-byte trailer corruption, literal writer crashes through the crash plan, and structured arbitrary strings, vs an independent validity predicate", "5/C13"),
 "C15": ("exploration", "independent decoder re-measures every data block and index block at depth>=2 against the cut rule", "5/C15"),
 "C16": ("exploration", "I/O trace at the source seam per public cursor call on files up to 2e5 entries and on deep index trees (fan-out 2-4, 2-8 levels): loads <= 2(levels+2), reads inside the sought block, open reads only the trailer", "5/C16"),
 "C17": ("exploration", "sorter, merger and read-path scenarios — including callers that continue after a failed component and components that panic — under a checking allocator (layout-on-free, canary, double free, leak, armed null allocation, junk-filled fresh memory, poisoned and quarantined freed memory, blocks aligned exactly as requested) with overflow checks and the standard library's debug preconditions on for grenad; thorough adds AddressSanitizer and Miri shards", "5/C17"),
 "C18": ("exploration", "insert sequences with injected order faults: panic at/after the first fault or every decoded block strictly ascending", "5/C18"),
}
NOTE = {
 "C12": "Exhaustive over the fault index for each sampled scenario; scenarios sampled. Components that lie (acknowledge and lose) are out of the statement and not injected.",
 "C13": "Exhaustive over truncation lengths and trailer byte flips for each sampled file; files sampled. Trusts the 10-line validity predicate in decode.rs.",
}
checks = []
for pid,(lvl,tech,ref) in P.items():
    checks.append({
        "property_id": pid,
        "quick_cmd": f"./check {pid} quick",
        "thorough_cmd": f"./check {pid} thorough",
        "evidence_file": f"/verif/evidence/{pid}.json",
        "replay_cmd_template": "./check replay {path}",
        "engine": "grenad-sim",
        "level_claimed": {"category": lvl, "text": ("Seeded search over simulated environments: every run is one exactly repeatable execution of the real grenad code inside the simulator; a clean batch is evidence, not proof. " + tech), "design_ref": "DESIGN.md section " + ref},
        "level_note": NOTE.get(pid, "Trusted base: the reference model (sorted vector, answers by definition), the independent decoder, the codec crates (real, not modelled), the simulator's SimFile/SimFs/SimMerge stubs. Sampling, not enumeration of the input space."),
        "technique": "deterministic simulation with fault injection: " + tech,
    })
m = {
 "version": 1,
 "setup_cmd": "./check build",
 "hooks": {
  "guard": "--cfg grenad_verif",
  "enable": "RUSTFLAGS=--cfg grenad_verif (set in /verif/sim/.cargo/config.toml; the simulator depends on /repo by path and rebuilds it from the working tree on every check)",
  "baseline_off_cmd": "cd /repo && cargo test --workspace --no-fail-fast --offline",
  "source_commits": ["56a34f5", "4894f5c"],
  "add_only": True,
 },
 "engines": [{"name": "grenad-sim", "path": "/verif/sim", "serves_properties": list(P.keys()), "kind_free_text": "single-process deterministic simulator: seeded PRNG decides workload, knobs, I/O schedule, fault and crash plans; real grenad code runs over SimFile/SimFs/SimMerge/VerifAlloc seams; replay = trace file"}],
 "checks": checks,
 "not_applicable": [{"property_id": "C14", "reason": "pure function u32 -> bytes -> u32 quantified exhaustively over 2^32 values: no schedule, fault, crash point, history or stream for a simulator to own; exhaustive enumeration/proof is a different technique (DESIGN.md section 7). Framing boundaries 2^7/2^14 are still exercised inside C01/C11 workloads."}],
 "notes": "Exit codes: 0 held, 1 violation (VIOLATION line + replay file that reproduces via ./check replay), 2 harness error. VERIF_SEED overrides the fixed default seed 20261003. Fixed defects are listed in known-findings.json (fixed entries suppress nothing).",
}
json.dump(m, open("/verif/MANIFEST.json","w"), indent=1)
print("ok", len(checks))
