#!/usr/bin/env python3
"""tools/adopt_seed.py <ID> <i> [extra check ids...]
Confirms a sub-agent's seeded change in a scratch worktree (baseline suite passes with it, the
demonstration fails with it and passes without it), runs the checks against it by applying it
to /repo and undoing straight afterwards, and stores it under /verif/seeded/<ID>-<i>/."""
import json, os, shutil, subprocess, sys, time
pid, i = sys.argv[1], sys.argv[2]
base = os.environ.get("SEED_BASE", "/tmp/seed")
tag = os.environ.get("SEED_TAG", "")
extra = sys.argv[3:]
src = f"{base}/{pid}/out"
patch, demo, meta = f"{src}/patch{i}.diff", f"{src}/demo{i}.rs", f"{src}/meta{i}.json"
scratch = "/tmp/mut"
def sh(cmd, cwd=None, timeout=3000):
    p = subprocess.run(cmd, shell=True, cwd=cwd, stdout=subprocess.PIPE, stderr=subprocess.STDOUT, timeout=timeout)
    return p.returncode, p.stdout.decode(errors="replace")
if not os.path.isdir(scratch):
    sh(f"git -C /repo worktree add -q --detach {scratch} HEAD")
sh("git checkout -q -- . && rm -rf tests", cwd=scratch)
os.makedirs(f"{scratch}/tests", exist_ok=True)
shutil.copy(demo, f"{scratch}/tests/demo.rs")
m = json.load(open(meta))
how = m.get("run", "") or m.get("how_to_run", "") or ""
res = {"property": pid, "summary": m.get("summary"), "needs": m.get("needs"), "files": m.get("files"), "agent_meta": m}
c0, o0 = sh("cargo test --offline --all-features --test demo", cwd=scratch)
res["demo_without_patch"] = "pass" if c0 == 0 else "FAIL"
c, o = sh(f"git apply {patch}", cwd=scratch)
if c != 0:
    print("patch does not apply", o); sys.exit(2)
os.rename(f"{scratch}/tests", f"{scratch}/tests.off")
cb, ob = sh("cargo test --offline", cwd=scratch)
res["baseline_with_patch"] = "pass" if cb == 0 else "FAIL"
os.rename(f"{scratch}/tests.off", f"{scratch}/tests")
c1, o1 = sh("cargo test --offline --all-features --test demo", cwd=scratch)
res["demo_with_patch"] = "fail" if c1 != 0 else "PASSES"
sh("git checkout -q -- . && rm -rf tests", cwd=scratch)
checks = {}
c, o = sh(f"git -C /repo apply {patch}")
if c != 0:
    print("does not apply to /repo", o); sys.exit(2)
try:
    for p in [pid] + extra:
        t = time.time()
        code, out = sh(f"./check {p} quick", cwd="/verif")
        line = next((l for l in out.splitlines() if l.startswith("violation:") or "HARNESS" in l), "")
        msg = ""
        lines = out.splitlines()
        for k, l in enumerate(lines):
            if l.startswith("violation:") and k + 1 < len(lines):
                msg = lines[k + 1].strip()[:300]; break
        checks[p] = {"exit": code, "secs": round(time.time() - t, 1), "first": line[:200], "msg": msg}
finally:
    sh("git -C /repo checkout -- .")
sh("find /verif/replays -name '*.json' -delete")
res["checks"] = checks
res["ran"] = ["cargo test --offline --all-features --test demo (scratch, without patch)", "git apply; cargo test --offline (scratch, baseline with patch)", "cargo test --offline --all-features --test demo (scratch, with patch)", "git -C /repo apply; ./check <ID> quick; git -C /repo checkout -- ."]
dst = f"/verif/seeded/{pid}-{tag}{i}"
os.makedirs(dst, exist_ok=True)
shutil.copy(patch, f"{dst}/patch.diff"); shutil.copy(demo, f"{dst}/demo.rs")
res["confirmed"] = res["demo_without_patch"] == "pass" and res["baseline_with_patch"] == "pass" and res["demo_with_patch"] == "fail"
json.dump(res, open(f"{dst}/meta.json", "w"), indent=1)
print(pid, i, "confirmed" if res["confirmed"] else "NOT-CONFIRMED", {k: v for k, v in res.items() if k in ("demo_without_patch", "baseline_with_patch", "demo_with_patch")})
for p, r in checks.items():
    print("  check", p, "exit", r["exit"], r["secs"], "s", r["first"][:150]); print("     ", r["msg"][:220])
