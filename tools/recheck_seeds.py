#!/usr/bin/env python3
"""tools/recheck_seeds.py [seed-id ...]   (default: all of /verif/seeded/*)
Re-runs the quick check of each stored seeded change: git -C /repo apply, ./check <ID> quick,
git -C /repo checkout -- . ; updates meta.json['checks'] and prints one line per seed."""
import json, glob, os, subprocess, sys, time
ids = sys.argv[1:] or sorted(os.path.basename(d) for d in glob.glob("/verif/seeded/*") if os.path.isdir(d))
def sh(cmd, cwd=None):
    p = subprocess.run(cmd, shell=True, cwd=cwd, stdout=subprocess.PIPE, stderr=subprocess.STDOUT)
    return p.returncode, p.stdout.decode(errors="replace")
missed = []
for sid in ids:
    d = f"/verif/seeded/{sid}"
    m = json.load(open(f"{d}/meta.json"))
    pid = m["property"]
    c, o = sh(f"git -C /repo apply {d}/patch.diff")
    if c != 0:
        print(sid, "patch does not apply:", o[:200]); continue
    try:
        t = time.time()
        code, out = sh(f"./check {pid} quick", cwd="/verif")
    finally:
        sh("git -C /repo checkout -- .")
    lines = out.splitlines()
    first = next((l for l in lines if l.startswith("violation:") or "HARNESS" in l), "")
    msg = ""
    for k, l in enumerate(lines):
        if l.startswith("violation:") and k + 1 < len(lines):
            msg = lines[k + 1].strip()[:300]; break
    m["checks"][pid] = {"exit": code, "secs": round(time.time() - t, 1), "first": first[:200], "msg": msg}
    json.dump(m, open(f"{d}/meta.json", "w"), indent=1)
    print(sid, "exit", code, round(time.time() - t), "s", first[first.find("oracle="):][:80] if "oracle=" in first else first[:80], flush=True)
    if code != 1:
        missed.append(sid)
sh("find /verif/replays -name '*.json' -delete")
print("missed:", missed)
