#!/bin/sh
# tools/coverage.sh [runs-per-property]  -- reach measure: line coverage of /repo/src by the checks.
# Builds the simulator with -C instrument-coverage (nightly llvm-tools), runs a reduced quick batch of
# every claimed property, and prints llvm-cov's per-file report. Output dirs live under /verif/target-cov.
RUNS=${1:-1200}
V=$(cd "$(dirname "$0")/.." && pwd)
BIN=$(dirname "$(rustup which --toolchain nightly rustc)")/../lib/rustlib/x86_64-unknown-linux-gnu/bin
(cd "$V/sim" && LLVM_PROFILE_FILE="$V/target-cov/build-%p.profraw" RUSTFLAGS="--cfg grenad_verif -C overflow-checks=on -C instrument-coverage" cargo +nightly build --release --offline --target-dir ../target-cov) || exit 2
rm -rf "$V/target-cov/prof" && mkdir -p "$V/target-cov/prof"
for p in C01 C02 C03 C04 C05 C06 C07 C08 C09 C10 C11 C12 C13 C15 C16 C17 C18; do
  LLVM_PROFILE_FILE="$V/target-cov/prof/$p-%p.profraw" VERIF_DIR="$V/target-cov/vd" "$V/target-cov/release/grenad-sim" check --prop $p --tier quick --runs "$RUNS" --jobs 8 | tail -1
done
"$BIN/llvm-profdata" merge -sparse "$V"/target-cov/prof/*.profraw -o "$V/target-cov/all.profdata" || exit 2
"$BIN/llvm-cov" report "$V/target-cov/release/grenad-sim" -instr-profile="$V/target-cov/all.profdata" --sources /repo/src
