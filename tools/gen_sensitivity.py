#!/usr/bin/env python3
import json, glob, os
out = ["# SENSITIVITY — which checks catch which changes", "",
"Two sources. (1) `seeded/<ID>-<i>/`: changes written by fresh sub-agents that saw only the text of one property and a scratch worktree (never /verif); each was confirmed here in a scratch worktree (baseline suite of 34 tests passes with it; its demonstration fails with it and passes without it) and then run against the checks by `git -C /repo apply` / `./check <ID> quick` / `git -C /repo checkout -- .` (tools/adopt_seed.py). (2) `mutants/*.patch`: deliberate changes written by hand (tools/sensitivity.sh), including semantics-preserving refactors that must NOT alarm.", "",
"## Seeded changes from sub-agents", "",
"| id | summary | needs | confirmed | check | exit | oracle that fired |", "|---|---|---|---|---|---|---|"]
n=caught=0
for d in sorted(glob.glob("/verif/seeded/*/meta.json")):
    m = json.load(open(d)); sid = os.path.basename(os.path.dirname(d))
    for p, r in m["checks"].items():
        n += 1; caught += r["exit"] == 1
        orc = ""
        if "oracle=" in r["first"]:
            orc = r["first"].split("oracle=")[1].split()[0]
        out.append(f"| {sid} | {(m.get('summary') or '')[:230]} | {(m.get('needs') or '')[:200]} | {'yes' if m['confirmed'] else 'NO'} | {p} | {r['exit']} | {orc} |")
out += ["", f"{caught} of {n} seeded changes are reported (exit 1 with a replay file that reproduces in a fresh process).",
"Five of them were missed by the first version of the checks and led to strengthening (see DESIGN.md section 9): C12-2 (flush omitted: sinks now may buffer until flush), C16-1 (8-entry look-ahead: C16 now also builds files whose entries are block-sized), C07-2 (final flush skipped for zero-byte entries: degenerate insert histories), C17-2 (dangling borrowed value: worker deaths are now attributed to the run and reported; freed memory is poisoned), C03-2 (stale offset after a failed reload: C03 now has a transient-fault family).", "",
"## Hand-written mutants and refactors", "", "| patch | baseline suite with patch | check | exit | oracle |", "|---|---|---|---|---|"]
for l in open("/verif/mutants/RESULTS.tsv"):
    a = l.rstrip("\n").split("\t")
    out.append(f"| {a[0]} | {a[1]} | {a[2]} | {a[3]} | {a[4]} |")
out += ["", "`baseline suite = FAIL` marks mutants that the repository's own tests already catch (kept for completeness). The three REFACTOR patches preserve behaviour (always reloading every index level stays within C16's bound of 2(levels+2); one write call per block; dropping a filter that can never reject) and every one of the 17 checks exits 0 on them."]
open("/verif/SENSITIVITY.md", "w").write("\n".join(out) + "\n")
print(caught, n)
