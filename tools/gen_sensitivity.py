#!/usr/bin/env python3
import json, glob, os
out = ["# SENSITIVITY — which checks catch which changes", "",
"Two sources. (1) `seeded/<ID>-<i>/`: changes written by fresh sub-agents that saw only the text of one property and a scratch worktree (never /verif); each was confirmed here in a scratch worktree (baseline suite of 34 tests passes with it; its demonstration fails with it and passes without it) and then run against the checks by `git -C /repo apply` / `./check <ID> quick` / `git -C /repo checkout -- .` (tools/adopt_seed.py). (2) `mutants/*.patch`: deliberate changes written by hand (tools/sensitivity.sh), including semantics-preserving refactors that must NOT alarm.", "",
"## Seeded changes from sub-agents", "",
"| id | summary | needs | confirmed | check | exit | oracle that fired |", "|---|---|---|---|---|---|---|"]
n=caught=0
for d in sorted(glob.glob("/verif/seeded/*/meta.json")):
    m = json.load(open(d)); sid = os.path.basename(os.path.dirname(d))
    for p, r in m["checks"].items():
        n += 1; caught += r["exit"] == 1
        orc = ""
        if "oracle=" in r["first"]:
            orc = r["first"].split("oracle=")[1].split()[0]
        out.append(f"| {sid} | {(m.get('summary') or '')[:230]} | {(m.get('needs') or '')[:200]} | {'yes' if m['confirmed'] else 'NO'} | {p} | {r['exit']} | {orc} |")
out += ["", f"{caught} of {n} seeded changes are reported (exit 1 with a replay file that reproduces in a fresh process).",
"Round 1 (`<ID>-1`, `<ID>-2`): two changes per property from 17 agents. Round 2 (`<ID>-h1`) and round 3 (`<ID>-g1`): one deliberately hard-to-find change each from 12 and 10 further agents (narrow numeric coincidences, state carried across an error, rare knob combinations).",
"Round 3 items that led to new generator reach, all extended from the agent's description before the first measurement: C06-g1 (exactly 33 tied sources -> merges of up to 70 tiny sources, counts around powers of two), C10-g1 (V1 root offset beyond 4 GiB -> sparse simulated files whose root index sits behind a hole of 2^32..2^40 virtual bytes; a read inside the hole fails at once), C11-g1 (block larger than a 4 MiB read window + Interrupted -> entries of 4-6 MiB under scaled interrupting schedules), C15-g1 (index block landing exactly on the block size with a >=16384-byte key -> 'lander' files whose keys are as long as the block at levels 2-4), C17-g1 (overlapping copy once the sorter buffer exceeds 64 MiB -> reserved hook-free run at the shipped 1 GiB budget with ~150 MB of inserts). C03-g1, C04-g1, C05-g1, C12-g1, C18-g1 were reported by the checks as they stood.",
"Changes that were missed by the version of the checks that existed when they arrived (round 1: C12-2, C16-1, C07-2, C17-2, C03-2; round 2: C07-h1, C16-h1 measured; the other round-2 items below were judged from the agent's description to be out of reach of the generators and the generators were extended before the first measurement), and what was strengthened (DESIGN.md section 9): C12-2 (flush omitted -> sinks may now buffer until flush), C16-1 (8-entry look-ahead -> C16 also builds files whose entries are block-sized), C07-2 (final flush skipped for zero-byte entries -> degenerate insert histories), C17-2 (dangling borrowed value -> worker deaths are attributed to the run; freed memory is poisoned; ASan shard), C03-2 and C03-h1 (stale state after a failed reload -> C03 transient-fault family), C08-h1 (merge trigger `==` after a failed create -> C08 transient-fault family), C01-h1/C09-h1/C02-h1 (entry length exactly 2^21 -> that framing boundary is now generated), C12-h1 (error dropped in the reverse prefix iterator -> prefixes whose successor is a stored key, one-entry-per-block layouts in fault scenarios), C11-h1 (vectored write resumed wrongly -> SimFile implements write_vectored with partial acceptance), C13-h1 (21-byte string -> every short suffix of each file is opened), C07-h1 (parallel stable sort unstable above 262144 entries -> reserved hook-free runs with ~500k tiny entries over 256 keys and a concatenating merge), C16-h1 (floor seek walking back over a prefix range -> probes that are proper prefixes of stored keys). After strengthening every one of them is reported.", "",
"## Hand-written mutants and refactors", "", "| patch | baseline suite with patch | check | exit | oracle |", "|---|---|---|---|---|"]
for l in open("/verif/mutants/RESULTS.tsv"):
    a = l.rstrip("\n").split("\t")
    out.append(f"| {a[0]} | {a[1]} | {a[2]} | {a[3]} | {a[4]} |")
out += ["", "`baseline suite = FAIL` marks mutants that the repository's own tests already catch (kept for completeness). `refactors/*.patch` are substantial behaviour-preserving refactors written by further sub-agents (one per source area, each with its own equivalence notes in `refactors/*.notes.txt`); every one of the 17 checks exits 0 on each of them. The three REFACTOR patches preserve behaviour (always reloading every index level stays within C16's bound of 2(levels+2); one write call per block; dropping a filter that can never reject) and every one of the 17 checks exits 0 on them."]
open("/verif/SENSITIVITY.md", "w").write("\n".join(out) + "\n")
print(caught, n)
