#!/bin/sh
# tools/sensitivity.sh <patch> <PROP> [PROP...]
# 1. baseline suite on a scratch worktree with the patch (must still pass: realistic change)
# 2. apply to /repo, run the named checks, undo. One result line per check.
PATCH=$(readlink -f "$1"); shift
SCRATCH=${SCRATCH:-/tmp/mut}
name=$(basename "$PATCH")
if [ ! -d "$SCRATCH" ]; then git -C /repo worktree add -q --detach "$SCRATCH" HEAD || exit 2; fi
git -C "$SCRATCH" checkout -q -- . && git -C "$SCRATCH" apply "$PATCH" || { echo "$name: patch does not apply"; exit 2; }
if (cd "$SCRATCH" && cargo test --offline >/tmp/sens-baseline.log 2>&1); then base=pass; else base=FAIL; fi
git -C "$SCRATCH" checkout -q -- .
git -C /repo apply "$PATCH" || { echo "$name: does not apply to /repo"; exit 2; }
for p in "$@"; do
    start=$(date +%s)
    out=$(cd /verif && ./check "$p" quick 2>&1); code=$?
    end=$(date +%s)
    first=$(echo "$out" | grep -m1 -E "^violation:|HARNESS" | cut -c1-160)
    echo "$name baseline=$base check=$p exit=$code secs=$((end-start)) $first"
done
git -C /repo checkout -- .
find /verif/replays -name '*.json' -newer "$PATCH" -delete 2>/dev/null
