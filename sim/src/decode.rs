//! Independent decoder of the grenad V2 (and V1) file format, written from the statement of
//! property C09. Shares no code with grenad; calls the codec crates directly.

use std::io::Read;

#[derive(Clone, Debug)]
pub struct BlockInfo {
    pub off: u64,
    /// stored (compressed) body length; the block occupies [off, off + 8 + stored_len)
    pub stored_len: u64,
    /// 0 = root index block … `levels` = lowest index level, `levels + 1` = data block
    pub depth: usize,
    pub raw_len: usize,
    pub payload_len: usize,
    pub offsets: Vec<u64>,
    /// (entry start in payload, key, value)
    pub entries: Vec<(usize, Vec<u8>, Vec<u8>)>,
}

impl BlockInfo {
    pub fn end(&self) -> u64 {
        self.off + 8 + self.stored_len
    }
    /// payload + 8 per offset + 4: the uncompressed size of the block
    pub fn size(&self) -> usize {
        self.payload_len + 8 * self.offsets.len() + 4
    }
}

#[derive(Clone, Debug)]
pub struct Decoded {
    pub version: u8, // 1 or 2
    pub codec: u8,
    pub count: u64,
    pub levels: u8,
    pub root_off: u64,
    pub trailer_len: usize,
    /// all blocks in file order
    pub blocks: Vec<BlockInfo>,
    /// data entries in traversal order
    pub data: Vec<(Vec<u8>, Vec<u8>)>,
}

pub fn decompress(codec: u8, body: &[u8]) -> Result<Vec<u8>, String> {
    match codec {
        0 => Ok(body.to_vec()),
        1 => snap::raw::Decoder::new().decompress_vec(body).map_err(|e| format!("snappy-raw: {}", e)),
        2 => {
            let mut d = flate2::read::ZlibDecoder::new(body);
            let mut out = Vec::new();
            d.read_to_end(&mut out).map_err(|e| format!("zlib: {}", e))?;
            if d.total_in() as usize != body.len() {
                return Err(format!("zlib: trailing bytes ({} of {} consumed)", d.total_in(), body.len()));
            }
            Ok(out)
        }
        3 => {
            let mut d = lz4_flex::frame::FrameDecoder::new(body);
            let mut out = Vec::new();
            d.read_to_end(&mut out).map_err(|e| format!("lz4: {}", e))?;
            Ok(out)
        }
        #[cfg(feature = "zstd")]
        4 => zstd::stream::decode_all(body).map_err(|e| format!("zstd: {}", e)),
        #[cfg(not(feature = "zstd"))]
        4 => Err("zstd support not compiled in".into()),
        5 => {
            let mut d = snap::read::FrameDecoder::new(body);
            let mut out = Vec::new();
            d.read_to_end(&mut out).map_err(|e| format!("snappy-frame: {}", e))?;
            Ok(out)
        }
        x => Err(format!("unknown codec id {}", x)),
    }
}

fn varint(data: &[u8], pos: &mut usize) -> Result<u32, String> {
    let mut val: u64 = 0;
    for i in 0..5 {
        let b = *data.get(*pos).ok_or("varint runs past the payload")?;
        *pos += 1;
        val |= ((b & 0x7f) as u64) << (7 * i);
        if b & 0x80 == 0 {
            if val > u32::MAX as u64 {
                return Err("varint exceeds u32".into());
            }
            return Ok(val as u32);
        }
    }
    Err("varint longer than 5 bytes".into())
}

fn be64(b: &[u8]) -> u64 {
    let mut a = [0u8; 8];
    a.copy_from_slice(&b[..8]);
    u64::from_be_bytes(a)
}

fn le64(b: &[u8]) -> u64 {
    let mut a = [0u8; 8];
    a.copy_from_slice(&b[..8]);
    u64::from_le_bytes(a)
}

pub fn parse_block(file: &[u8], off: u64, limit: u64, codec: u8, depth: usize) -> Result<BlockInfo, String> {
    let o = off as usize;
    if off + 8 > limit {
        return Err(format!("block at {} has no room for its length prefix (limit {})", off, limit));
    }
    let stored_len = be64(&file[o..o + 8]);
    if off + 8 + stored_len > limit {
        return Err(format!("block at {} with stored length {} exceeds limit {}", off, stored_len, limit));
    }
    let body = &file[o + 8..o + 8 + stored_len as usize];
    let raw = decompress(codec, body).map_err(|e| format!("block at {}: {}", off, e))?;
    if raw.len() < 12 {
        return Err(format!("block at {}: uncompressed size {} < 12", off, raw.len()));
    }
    let cnt = u32::from_be_bytes([raw[raw.len() - 4], raw[raw.len() - 3], raw[raw.len() - 2], raw[raw.len() - 1]]) as usize;
    if cnt == 0 {
        return Err(format!("block at {}: offset count is 0", off));
    }
    if raw.len() < 4 + 8 * cnt {
        return Err(format!("block at {}: offset table ({}) larger than block", off, cnt));
    }
    let payload_len = raw.len() - 4 - 8 * cnt;
    let mut offsets = Vec::with_capacity(cnt);
    for i in 0..cnt {
        offsets.push(be64(&raw[payload_len + 8 * i..]));
    }
    if offsets[0] != 0 {
        return Err(format!("block at {}: first offset is {} not 0", off, offsets[0]));
    }
    let payload = &raw[..payload_len];
    let mut entries = Vec::new();
    let mut pos = 0usize;
    while pos < payload_len {
        let start = pos;
        let kl = varint(payload, &mut pos).map_err(|e| format!("block at {}: {}", off, e))? as usize;
        let vl = varint(payload, &mut pos).map_err(|e| format!("block at {}: {}", off, e))? as usize;
        if pos + kl + vl > payload_len {
            return Err(format!("block at {}: entry at {} runs past the payload", off, start));
        }
        let key = payload[pos..pos + kl].to_vec();
        let val = payload[pos + kl..pos + kl + vl].to_vec();
        pos += kl + vl;
        entries.push((start, key, val));
    }
    Ok(BlockInfo { off, stored_len, depth, raw_len: raw.len(), payload_len, offsets, entries })
}

/// Checks the offset table against the entries: with `interval` known, offsets must be exactly
/// the starts of entries 0, I, 2I, …; otherwise strictly increasing entry starts.
pub fn check_offsets(b: &BlockInfo, interval: Option<usize>) -> Result<(), String> {
    let starts: Vec<u64> = b.entries.iter().map(|e| e.0 as u64).collect();
    match interval {
        Some(i) => {
            let mut expect: Vec<u64> = starts.iter().step_by(i.max(1)).copied().collect();
            if expect.is_empty() {
                expect.push(0);
            }
            if expect != b.offsets {
                return Err(format!(
                    "block at {}: offset table {:?}… does not equal entry starts every {} entries {:?}… ({} entries)",
                    b.off,
                    &b.offsets[..b.offsets.len().min(6)],
                    i,
                    &expect[..expect.len().min(6)],
                    starts.len()
                ));
            }
        }
        None => {
            for w in b.offsets.windows(2) {
                if w[1] <= w[0] {
                    return Err(format!("block at {}: offsets not strictly increasing", b.off));
                }
            }
            for o in &b.offsets {
                if *o != 0 && starts.binary_search(o).is_err() {
                    return Err(format!("block at {}: offset {} is not an entry start", b.off, o));
                }
            }
        }
    }
    Ok(())
}

pub struct Trailer {
    pub version: u8,
    pub root_off: u64,
    pub codec: u8,
    pub count: u64,
    pub levels: u8,
    pub len: usize,
}

pub fn parse_trailer(file: &[u8]) -> Result<Trailer, String> {
    if file.len() < 4 {
        return Err("shorter than a magic number".into());
    }
    let m = &file[file.len() - 4..];
    let magic = u32::from_le_bytes([m[0], m[1], m[2], m[3]]);
    if magic == 0x6723_D4C4 {
        if file.len() < 22 {
            return Err("V2 magic but fewer than 22 bytes".into());
        }
        let t = &file[file.len() - 22..];
        Ok(Trailer { version: 2, root_off: le64(&t[0..]), codec: t[8], count: le64(&t[9..]), levels: t[17], len: 22 })
    } else if magic == 0x7632_4D4C {
        if file.len() < 21 {
            return Err("V1 magic but fewer than 21 bytes".into());
        }
        let t = &file[file.len() - 21..];
        Ok(Trailer { version: 1, root_off: le64(&t[0..]), codec: t[8], count: le64(&t[9..]), levels: 0, len: 21 })
    } else {
        Err(format!("unknown magic {:08x}", magic))
    }
}

/// Independent validity predicate of C13: does the byte string end in a complete trailer?
pub fn trailer_valid(s: &[u8]) -> bool {
    if s.len() < 4 {
        return false;
    }
    let m = &s[s.len() - 4..];
    let magic = u32::from_le_bytes([m[0], m[1], m[2], m[3]]);
    if magic == 0x6723_D4C4 {
        s.len() >= 22 && s[s.len() - 22 + 8] <= 5
    } else if magic == 0x7632_4D4C {
        s.len() >= 21 && s[s.len() - 21 + 8] <= 5
    } else {
        false
    }
}

/// Full structural decode. `interval`: the configured in-block index interval if known.
pub fn decode(file: &[u8], interval: Option<usize>) -> Result<Decoded, String> {
    let t = parse_trailer(file)?;
    if t.codec > 5 {
        return Err(format!("codec id {}", t.codec));
    }
    let body_end = (file.len() - t.len) as u64;
    if t.root_off + 8 > body_end {
        return Err(format!("root offset {} outside the body (body ends at {})", t.root_off, body_end));
    }
    let mut blocks: Vec<BlockInfo> = Vec::new();
    let mut data: Vec<(Vec<u8>, Vec<u8>)> = Vec::new();
    let levels = t.levels as usize;

    // iterative DFS in key order: stack of (offset, depth, expected last key)
    let root = parse_block(file, t.root_off, body_end, t.codec, 0)?;
    if root.end() != body_end {
        return Err(format!("root block ends at {} but the trailer starts at {}", root.end(), body_end));
    }
    check_offsets(&root, interval)?;
    let mut stack: Vec<(u64, usize, Vec<u8>)> = Vec::new();
    let push_children = |b: &BlockInfo, stack: &mut Vec<(u64, usize, Vec<u8>)>| -> Result<(), String> {
        for (_, k, v) in b.entries.iter().rev() {
            if v.len() != 8 {
                return Err(format!("index block at {}: value of {} bytes is not a u64 offset", b.off, v.len()));
            }
            stack.push((be64(v), b.depth + 1, k.clone()));
        }
        Ok(())
    };
    strictly_ascending(&root)?;
    push_children(&root, &mut stack)?;
    blocks.push(root);
    let mut guard = 0usize;
    while let Some((off, depth, last_key)) = stack.pop() {
        guard += 1;
        if guard > 5_000_000 {
            return Err("too many blocks (cycle?)".into());
        }
        if off >= t.root_off {
            return Err(format!("child offset {} not before the root {}", off, t.root_off));
        }
        let b = parse_block(file, off, t.root_off, t.codec, depth)?;
        check_offsets(&b, interval)?;
        strictly_ascending(&b)?;
        match b.entries.last() {
            None => return Err(format!("referenced block at {} is empty", off)),
            Some((_, k, _)) => {
                if *k != last_key {
                    return Err(format!(
                        "index entry key for block at {} is not that block's last key",
                        off
                    ));
                }
            }
        }
        if depth == levels + 1 {
            for (_, k, v) in &b.entries {
                data.push((k.clone(), v.clone()));
            }
        } else {
            push_children(&b, &mut stack)?;
        }
        blocks.push(b);
    }
    // tiling: blocks cover [0, root_end) exactly, each once
    blocks.sort_by_key(|b| b.off);
    let mut at = 0u64;
    for b in &blocks {
        if b.off != at {
            return Err(format!("gap or overlap: expected a block at {}, found one at {}", at, b.off));
        }
        at = b.end();
    }
    if at != body_end {
        return Err(format!("blocks end at {} but the trailer starts at {}", at, body_end));
    }
    if blocks.last().map(|b| b.depth) != Some(0) {
        return Err("the root is not the last block".into());
    }
    // data blocks in file order must be in key order
    for w in data.windows(2) {
        if w[0].0 >= w[1].0 {
            return Err("data keys are not strictly ascending across blocks".into());
        }
    }
    let mut last_data_off = None;
    for b in blocks.iter().filter(|b| b.depth == levels + 1) {
        if let Some(p) = last_data_off {
            if b.off <= p {
                return Err("data blocks out of file order".into());
            }
        }
        last_data_off = Some(b.off);
    }
    if data.len() as u64 != t.count {
        return Err(format!("trailer count {} but {} data entries decoded", t.count, data.len()));
    }
    Ok(Decoded {
        version: t.version,
        codec: t.codec,
        count: t.count,
        levels: t.levels,
        root_off: t.root_off,
        trailer_len: t.len,
        blocks,
        data,
    })
}

pub fn strictly_ascending(b: &BlockInfo) -> Result<(), String> {
    for w in b.entries.windows(2) {
        if w[0].1 >= w[1].1 {
            return Err(format!(
                "block at {} (depth {}): keys not strictly ascending ({:02x?} then {:02x?})",
                b.off, b.depth, w[0].1, w[1].1
            ));
        }
    }
    Ok(())
}

/// Lenient decode for C18: parse the tree without demanding order or key linkage; returns blocks.
pub fn decode_blocks_lenient(file: &[u8]) -> Result<(Trailer, Vec<BlockInfo>), String> {
    let t = parse_trailer(file)?;
    let body_end = (file.len() - t.len) as u64;
    let levels = t.levels as usize;
    let mut blocks = Vec::new();
    let mut stack = vec![(t.root_off, 0usize)];
    let mut guard = 0;
    while let Some((off, depth)) = stack.pop() {
        guard += 1;
        if guard > 5_000_000 {
            return Err("too many blocks".into());
        }
        let b = parse_block(file, off, body_end, t.codec, depth)?;
        if depth <= levels {
            for (_, _, v) in b.entries.iter().rev() {
                if v.len() != 8 {
                    return Err("index value is not 8 bytes".into());
                }
                stack.push((be64(v), depth + 1));
            }
        }
        blocks.push(b);
    }
    Ok((t, blocks))
}

/// Size of a block without its final entry (C15): drops the entry bytes and, when the final
/// entry opened a new offset slot, that slot too.
pub fn size_without_last(b: &BlockInfo) -> Option<usize> {
    let (start, _, _) = b.entries.last()?;
    let last_opened_slot = b.offsets.len() > 1 && *b.offsets.last().unwrap() == *start as u64;
    let offs = if last_opened_slot { b.offsets.len() - 1 } else { b.offsets.len() };
    Some(*start + 8 * offs + 4)
}
