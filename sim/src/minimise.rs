//! Delta-debugging style minimiser over replay cases: keeps a candidate only if it fails with
//! the same violation class (property id + oracle id).

use std::time::{Duration, Instant};

use crate::case::*;
use crate::env::{EnvPlan, IoMode};
use crate::props::check_case;
use crate::run::Stats;

fn shrink_entries(e: &Entries) -> Vec<Entries> {
    let mut out = Vec::new();
    match e {
        Entries::Literal(v) => {
            let n = v.len();
            if n == 0 {
                return out;
            }
            let mut chunk = n / 2;
            while chunk >= 1 {
                let mut start = 0;
                while start < n {
                    let end = (start + chunk).min(n);
                    let mut w = v[..start].to_vec();
                    w.extend_from_slice(&v[end..]);
                    out.push(Entries::Literal(w));
                    start = end;
                    if out.len() > 48 {
                        break;
                    }
                }
                if chunk == 1 || out.len() > 48 {
                    break;
                }
                chunk /= 2;
            }
            // shrink values
            if v.iter().any(|(_, val)| val.0.len() > 8) {
                out.push(Entries::Literal(v.iter().map(|(k, val)| (k.clone(), B(val.0[..val.0.len().min(8)].to_vec()))).collect()));
                out.push(Entries::Literal(v.iter().map(|(k, val)| (k.clone(), B(val.0[..val.0.len() / 2].to_vec()))).collect()));
            }
        }
        Entries::Counter { n, width, start, stride, vlen } => {
            if *n > 0 {
                out.push(Entries::Counter { n: n / 2, width: *width, start: *start, stride: *stride, vlen: *vlen });
                out.push(Entries::Counter { n: n - 1, width: *width, start: *start, stride: *stride, vlen: *vlen });
            }
            if *vlen > 0 {
                out.push(Entries::Counter { n: *n, width: *width, start: *start, stride: *stride, vlen: 0 });
            }
        }
        Entries::Noise { n, width, start, stride, vlen, seed } => {
            // the compressible twin first, then fewer and shorter entries
            out.push(Entries::Counter { n: *n, width: *width, start: *start, stride: *stride, vlen: *vlen });
            if *n > 1 {
                out.push(Entries::Noise { n: n - 1, width: *width, start: *start, stride: *stride, vlen: *vlen, seed: *seed });
            }
            if *vlen > 0 {
                out.push(Entries::Noise { n: *n, width: *width, start: *start, stride: *stride, vlen: vlen / 2, seed: *seed });
                out.push(Entries::Noise { n: *n, width: *width, start: *start, stride: *stride, vlen: vlen - vlen / 16 - 1, seed: *seed });
            }
        }
    }
    out
}

fn shrink_knobs(k: &Knobs) -> Vec<Knobs> {
    let mut out = Vec::new();
    if k.codec != 0 {
        out.push(Knobs { codec: 0, level: 0, ..k.clone() });
    }
    if k.level != 0 {
        out.push(Knobs { level: 0, ..k.clone() });
    }
    if k.levels > 0 {
        out.push(Knobs { levels: 0, ..k.clone() });
        if k.levels > 2 {
            out.push(Knobs { levels: 2, ..k.clone() });
        }
        out.push(Knobs { levels: k.levels - 1, ..k.clone() });
    }
    if k.interval.is_some() {
        out.push(Knobs { interval: None, ..k.clone() });
    }
    if k.block_size != Some(1024) {
        out.push(Knobs { block_size: Some(1024), ..k.clone() });
    }
    if k.ctor != 0 || k.fin != 0 {
        out.push(Knobs { ctor: 0, fin: 0, ..k.clone() });
    }
    out
}

fn shrink_env(e: &EnvPlan) -> Vec<EnvPlan> {
    let mut out = Vec::new();
    if !e.is_whole() {
        out.push(EnvPlan { modes: vec![IoMode::Whole], ..e.clone() });
        if e.modes.len() > 1 {
            for m in &e.modes {
                out.push(EnvPlan { modes: vec![*m], ..e.clone() });
            }
        }
        for m in &e.modes {
            if let IoMode::ChopIntr { max, .. } | IoMode::ChopBurst { max, .. } = m {
                out.push(EnvPlan { modes: vec![IoMode::Chop { max: *max }], ..e.clone() });
            }
        }
    }
    if e.buffered {
        out.push(EnvPlan { buffered: false, ..e.clone() });
    }
    if e.shared_pos {
        out.push(EnvPlan { shared_pos: false, ..e.clone() });
    }
    if e.src_start != 0 {
        out.push(EnvPlan { src_start: 0, ..e.clone() });
    }
    if e.faults.len() > 1 {
        for i in 0..e.faults.len() {
            let mut f = e.faults.clone();
            f.remove(i);
            out.push(EnvPlan { faults: f, ..e.clone() });
        }
    }
    out
}

fn drop_chunks<T: Clone>(v: &[T]) -> Vec<Vec<T>> {
    let mut out = Vec::new();
    let n = v.len();
    if n == 0 {
        return out;
    }
    let mut chunk = n.div_ceil(2);
    loop {
        let mut start = 0;
        while start < n {
            let end = (start + chunk).min(n);
            let mut w = v[..start].to_vec();
            w.extend_from_slice(&v[end..]);
            out.push(w);
            start = end;
        }
        if chunk == 1 || out.len() > 64 {
            break;
        }
        chunk = chunk.div_ceil(2);
    }
    out
}

fn spec_candidates(s: &FileSpec) -> Vec<FileSpec> {
    let mut out = Vec::new();
    for e in shrink_entries(&s.entries) {
        out.push(FileSpec { knobs: s.knobs.clone(), entries: e });
    }
    for k in shrink_knobs(&s.knobs) {
        out.push(FileSpec { knobs: k, entries: s.entries.clone() });
    }
    out
}

pub fn candidates(case: &Case) -> Vec<Case> {
    let mut out = Vec::new();
    match case {
        Case::File(c) => {
            for s in spec_candidates(&c.spec) {
                out.push(Case::File(FileCase { spec: s, ..c.clone() }));
            }
            for e in shrink_env(&c.env) {
                out.push(Case::File(FileCase { env: e, ..c.clone() }));
            }
        }
        Case::Cursor(c) => {
            for st in drop_chunks(&c.steps) {
                out.push(Case::Cursor(CursorCase { steps: st, ..c.clone() }));
            }
            for (i, st) in c.steps.iter().enumerate() {
                let smaller = match &st.op {
                    Op::NextN(k) if *k > 1 => Some(Op::NextN(k / 2)),
                    Op::PrevN(k) if *k > 1 => Some(Op::PrevN(k / 2)),
                    Op::NextN(k) if *k > 0 => Some(Op::NextN(k - 1)),
                    Op::PrevN(k) if *k > 0 => Some(Op::PrevN(k - 1)),
                    _ => None,
                };
                if let Some(op) = smaller {
                    let mut steps = c.steps.clone();
                    steps[i].op = op;
                    out.push(Case::Cursor(CursorCase { steps, ..c.clone() }));
                }
                if st.cur != 0 && c.steps.len() < 12 {
                    let mut steps = c.steps.clone();
                    steps[i].cur = 0;
                    out.push(Case::Cursor(CursorCase { steps, ..c.clone() }));
                }
            }
            for s in spec_candidates(&c.spec) {
                out.push(Case::Cursor(CursorCase { spec: s, ..c.clone() }));
            }
            for e in shrink_env(&c.env) {
                out.push(Case::Cursor(CursorCase { env: e, ..c.clone() }));
            }
        }
        Case::Iter(c) => {
            for q in drop_chunks(&c.queries) {
                out.push(Case::Iter(IterCase { queries: q, ..c.clone() }));
            }
            for s in spec_candidates(&c.spec) {
                out.push(Case::Iter(IterCase { spec: s, ..c.clone() }));
            }
            for e in shrink_env(&c.env) {
                out.push(Case::Iter(IterCase { env: e, ..c.clone() }));
            }
            if c.interleave {
                out.push(Case::Iter(IterCase { interleave: false, ..c.clone() }));
            }
        }
        Case::Merge(c) => {
            // drop runs of sources (halves, quarters, ... single ones); candidate lists stay linear in k
            let idx: Vec<usize> = (0..c.sources.len()).collect();
            for keep in drop_chunks(&idx).into_iter().take(40) {
                let s: Vec<FileSpec> = keep.iter().map(|i| c.sources[*i].clone()).collect();
                let a: Vec<u8> = keep.iter().map(|i| c.attach.get(*i).copied().unwrap_or(0)).collect();
                out.push(Case::Merge(MergeCase { sources: s, attach: a, ..c.clone() }));
            }
            if c.sources.len() <= 8 {
                for i in 0..c.sources.len() {
                    for s in spec_candidates(&c.sources[i]) {
                        let mut srcs = c.sources.clone();
                        srcs[i] = s;
                        out.push(Case::Merge(MergeCase { sources: srcs, ..c.clone() }));
                    }
                }
            }
            if c.attach.iter().any(|a| *a != 0) {
                out.push(Case::Merge(MergeCase { attach: vec![0; c.attach.len()], ..c.clone() }));
            }
            for k in shrink_knobs(&c.out_knobs) {
                out.push(Case::Merge(MergeCase { out_knobs: k, ..c.clone() }));
            }
            for e in shrink_env(&c.env) {
                out.push(Case::Merge(MergeCase { env: e, ..c.clone() }));
            }
        }
        Case::Sort(c) => {
            if !c.alt_knobs.is_empty() {
                out.push(Case::Sort(SortCase { alt_knobs: vec![], ..c.clone() }));
                for a in &c.alt_knobs {
                    out.push(Case::Sort(SortCase { knobs: a.clone(), alt_knobs: vec![], ..c.clone() }));
                    out.push(Case::Sort(SortCase { alt_knobs: vec![a.clone()], ..c.clone() }));
                }
            }
            for e in shrink_entries(&c.inserts) {
                out.push(Case::Sort(SortCase { inserts: e, ..c.clone() }));
            }
            let k = &c.knobs;
            let mut ks = Vec::new();
            if k.parallel {
                ks.push(SortKnobs { parallel: false, ..k.clone() });
            }
            if k.chunk_codec.is_some() || k.chunk_level.is_some() {
                ks.push(SortKnobs { chunk_codec: None, chunk_level: None, ..k.clone() });
            }
            if k.block_size.is_some() || k.interval.is_some() || k.levels.is_some() {
                ks.push(SortKnobs { block_size: None, interval: None, levels: None, ..k.clone() });
            }
            if k.unstable {
                ks.push(SortKnobs { unstable: false, ..k.clone() });
            }
            if k.creator != 0 {
                ks.push(SortKnobs { creator: 0, ..k.clone() });
            }
            if k.max_nb_chunks.is_some() {
                ks.push(SortKnobs { max_nb_chunks: None, ..k.clone() });
            }
            for kk in ks {
                out.push(Case::Sort(SortCase { knobs: kk, ..c.clone() }));
            }
            if c.consume != 0 {
                out.push(Case::Sort(SortCase { consume: 0, ..c.clone() }));
            }
            for kk in shrink_knobs(&c.out_knobs) {
                out.push(Case::Sort(SortCase { out_knobs: kk, ..c.clone() }));
            }
            for e in shrink_env(&c.env) {
                out.push(Case::Sort(SortCase { env: e, ..c.clone() }));
            }
        }
        Case::Open(c) => {
            let b = &c.bytes.0;
            let mut cut = b.len() / 2;
            while cut >= 1 {
                out.push(Case::Open(OpenCase { bytes: B(b[cut..].to_vec()) }));
                if cut == 1 {
                    break;
                }
                cut /= 2;
            }
        }
    }
    out
}

fn clear_faults(case: &Case) -> Case {
    let mut c = case.clone();
    match &mut c {
        Case::File(x) => x.env.faults.clear(),
        Case::Cursor(x) => x.env.faults.clear(),
        Case::Iter(x) => x.env.faults.clear(),
        Case::Merge(x) => x.env.faults.clear(),
        Case::Sort(x) => x.env.faults.clear(),
        Case::Open(_) => {}
    }
    c
}

/// Returns the minimised case (which still fails with the same oracle) and the number of candidate executions.
pub fn minimise(prop: &str, case: &Case, oracle: &str, max_execs: usize, max_time: Duration) -> (Case, usize) {
    let start = Instant::now();
    let mut cur = case.clone();
    let mut execs = 0usize;
    'outer: loop {
        for cand in candidates(&cur) {
            if execs >= max_execs || start.elapsed() > max_time {
                break 'outer;
            }
            execs += 1;
            let probe = if prop == "C12" { clear_faults(&cand) } else { cand.clone() };
            let mut st = Stats::default();
            if let Some((v, repl)) = check_case(prop, &probe, &mut st) {
                if v.oracle == oracle {
                    cur = repl.unwrap_or(cand);
                    continue 'outer;
                }
            }
        }
        break;
    }
    (cur, execs)
}
