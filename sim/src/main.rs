//! grenad-sim: deterministic simulation with fault injection for meilisearch/grenad.
//!
//!   grenad-sim check --prop C03 --tier quick [--seed N] [--jobs N] [--runs N]
//!   grenad-sim replay <trace.json>
//!   grenad-sim selftest [--prop C03] [--runs N]
//!   grenad-sim worker ...            (internal)

mod alloc;
mod case;
mod decode;
mod env;
mod exec;
mod gen;
mod minimise;
mod model;
mod props;
mod props_cursor;
mod props_env;
mod props_file;
mod props_iter;
mod props_merge;
mod props_sort;
mod rng;
mod run;

use std::collections::{BTreeMap, BTreeSet};
use std::io::Write as _;
use std::path::{Path, PathBuf};
use std::process::{Command, Stdio};
use std::time::{Duration, Instant};

use serde_json::json;

use crate::case::{Case, Trace};
use crate::env::Counters;
use crate::gen::Tier;
use crate::rng::{hash_str, mix, Rng};
use crate::run::Stats;

pub const DEFAULT_SEED: u64 = 20_261_003;

fn verif_dir() -> PathBuf {
    std::env::var("VERIF_DIR").map(PathBuf::from).unwrap_or_else(|_| PathBuf::from("/verif"))
}

fn sub_seed(master: u64, prop: &str, run: u64) -> u64 {
    mix(mix(master, hash_str(prop)), run)
}

fn arg(args: &[String], name: &str) -> Option<String> {
    args.iter().position(|a| a == name).and_then(|i| args.get(i + 1).cloned())
}

fn tier_of(s: &str) -> Tier {
    if s == "thorough" {
        Tier::Thorough
    } else {
        Tier::Quick
    }
}

fn init_runtime() {
    exec::install_panic_hook();
    // One rayon worker: the real parallel-sort code path with a fixed schedule.
    let _ = rayon::ThreadPoolBuilder::new().num_threads(1).build_global();
}

#[derive(serde::Serialize, serde::Deserialize, Default)]
struct ViolationRec {
    run: u64,
    sub_seed: u64,
    oracle: String,
    msg: String,
    replay: String,
    minimise_execs: usize,
}

#[derive(serde::Serialize, serde::Deserialize, Default)]
struct ShardReport {
    runs: u64,
    evaluations: u64,
    public_calls: u64,
    io_calls: u64,
    counters: BTreeMap<String, u64>,
    samples: Vec<serde_json::Value>,
    violations: Vec<ViolationRec>,
    digests: Vec<(u64, u64)>,
    wall_s: f64,
    cap_hit: bool,
    n_distinct: u64,
}

fn write_set(path: &Path, set: &BTreeSet<u64>) {
    let mut buf = Vec::with_capacity(set.len() * 8);
    for x in set {
        buf.extend_from_slice(&x.to_le_bytes());
    }
    let _ = std::fs::write(path, buf);
}

fn read_set(path: &Path, into: &mut Vec<u64>) {
    if let Ok(b) = std::fs::read(path) {
        for c in b.chunks_exact(8) {
            let mut a = [0u8; 8];
            a.copy_from_slice(c);
            into.push(u64::from_le_bytes(a));
        }
    }
}

fn case_digest(case: &Case) -> u64 {
    rng::fnv1a(serde_json::to_string(case).unwrap_or_default().as_bytes())
}

/// Builds without zstd (Miri) replace that codec; `small` additionally shrinks the case so that an
/// interpreter can execute it in seconds.
fn adapt_small(mut case: Case, small: bool) -> Case {
    use crate::case::*;
    fn knobs(k: &mut Knobs, small: bool) {
        if !cfg!(feature = "zstd") && k.codec == 4 {
            k.codec = 3;
        }
        if small {
            if k.codec == 2 && k.level > 9 {
                k.level = 6;
            }
            if k.levels > 3 {
                k.levels = 3;
            }
        }
    }
    fn ents(e: &mut Entries, cap: usize, small: bool) {
        if !small {
            return;
        }
        match e {
            Entries::Literal(v) => {
                v.truncate(cap);
                for (_, val) in v.iter_mut() {
                    if val.0.len() > 700 {
                        val.0.truncate(700);
                        if val.0.len() >= 2 {
                            let l = (val.0.len() as u16).to_be_bytes();
                            val.0[0] = l[0];
                            val.0[1] = l[1];
                        }
                    }
                }
            }
            Entries::Counter { n, vlen, .. } | Entries::Noise { n, vlen, .. } => {
                *n = (*n).min(cap as u64);
                *vlen = (*vlen).min(200);
            }
        }
    }
    match &mut case {
        Case::File(c) => {
            knobs(&mut c.spec.knobs, small);
            ents(&mut c.spec.entries, 30, small);
        }
        Case::Cursor(c) => {
            knobs(&mut c.spec.knobs, small);
            ents(&mut c.spec.entries, 30, small);
            if small {
                c.steps.truncate(20);
                for s in c.steps.iter_mut() {
                    if let Op::NextN(k) | Op::PrevN(k) = &mut s.op {
                        *k = (*k).min(8);
                    }
                }
            }
        }
        Case::Iter(c) => {
            knobs(&mut c.spec.knobs, small);
            ents(&mut c.spec.entries, 30, small);
            if small {
                c.queries.truncate(4);
            }
        }
        Case::Merge(c) => {
            for s in c.sources.iter_mut() {
                knobs(&mut s.knobs, small);
                ents(&mut s.entries, 12, small);
            }
            knobs(&mut c.out_knobs, small);
        }
        Case::Sort(c) => {
            ents(&mut c.inserts, 40, small);
            knobs(&mut c.out_knobs, small);
            for k in std::iter::once(&mut c.knobs).chain(c.alt_knobs.iter_mut()) {
                if !cfg!(feature = "zstd") && k.chunk_codec == Some(4) {
                    k.chunk_codec = Some(3);
                }
                if small {
                    if k.creator == 2 {
                        k.creator = 0;
                    }
                    if let Some(t) = k.raw_threshold.as_mut() {
                        *t = (*t).min(1024);
                    }
                    if let Some(c) = k.init_cap.as_mut() {
                        *c = (*c).min(1024);
                    }
                }
            }
        }
        Case::Open(_) => {}
    }
    case
}

fn worker(args: &[String]) -> i32 {
    init_runtime();
    let prop = arg(args, "--prop").unwrap();
    let tier = tier_of(&arg(args, "--tier").unwrap_or_default());
    let master: u64 = arg(args, "--seed").and_then(|s| s.parse().ok()).unwrap_or(DEFAULT_SEED);
    let first: u64 = arg(args, "--first").and_then(|s| s.parse().ok()).unwrap_or(0);
    let step: u64 = arg(args, "--step").and_then(|s| s.parse().ok()).unwrap_or(1);
    let total: u64 = arg(args, "--total").and_then(|s| s.parse().ok()).unwrap_or(1);
    let out = PathBuf::from(arg(args, "--out").unwrap());
    let cap_s: f64 = arg(args, "--cap").and_then(|s| s.parse().ok()).unwrap_or(600.0);
    let want_digests = args.iter().any(|a| a == "--digests");
    let start = Instant::now();
    let known = load_known();
    let mut st = Stats::default();
    let mut rep = ShardReport::default();
    let mut run = first;
    while run < total {
        if start.elapsed().as_secs_f64() > cap_s {
            rep.cap_hit = true;
            break;
        }
        let sub = sub_seed(master, &prop, run);
        let _ = std::fs::write(out.with_extension("cur"), run.to_string());
        let mut r = Rng::new(sub);
        let tiny = args.iter().any(|a| a == "--tiny");
        let case = if tiny { props_env::gen_tiny(&mut r) } else { props::gen_case_indexed(&prop, &mut r, tier, run) };
        let case = if cfg!(miri) || !cfg!(feature = "zstd") || std::env::var_os("VERIF_SMALL").is_some() { adapt_small(case, cfg!(miri) || std::env::var_os("VERIF_SMALL").is_some()) } else { case };
        let t_run = Instant::now();
        let ev0 = st.evaluations;
        let (pc0, io0) = (st.public_calls, st.io_calls);
        let verdict = props::check_case(&prop, &case, &mut st);
        if st.evaluations == ev0 {
            st.evaluations += 1;
        }
        rep.runs += 1;
        if std::env::var_os("VERIF_SLOW").is_some() && t_run.elapsed().as_millis() > 150 {
            eprintln!("slow run {} ({} ms): {}", run, t_run.elapsed().as_millis(), run::summarize_case(&case));
        }
        if rep.runs <= 2 || (rep.runs % 997 == 0 && st.samples.len() < 3) {
            st.sample(run::summarize_case(&case));
        }
        if want_digests {
            let vd = verdict.as_ref().map(|(v, _)| rng::fnv1a(v.oracle.as_bytes())).unwrap_or(0);
            rep.digests.push((run, case_digest(&case) ^ vd ^ (st.public_calls - pc0).wrapping_mul(0x9E37_79B9) ^ (st.io_calls - io0).rotate_left(21)));
        }
        // determinism sample: about 1 % of the runs are executed a second time in this process and
        // must give the same verdict and the same logical-time counts
        if run % 97 == 3 && verdict.is_none() {
            let mut again = Stats::default();
            let v2 = props::check_case(&prop, &case, &mut again);
            let (pc, io) = (st.public_calls - pc0, st.io_calls - io0);
            if v2.is_some() || again.public_calls != pc || again.io_calls != io {
                eprintln!(
                    "HARNESS-ERROR: run {} of {} is not deterministic (calls {} vs {}, io {} vs {}, second verdict {:?})",
                    run, prop, pc, again.public_calls, io, again.io_calls, v2.as_ref().map(|(v, _)| v.oracle.clone())
                );
                std::process::exit(3);
            }
            st.c.inc("determinism_samples_reexecuted");
        }
        if let Some((v, repl)) = verdict {
            let failing = repl.unwrap_or(case);
            // a listed open finding: counted, not minimised, and it does not end the shard early
            let failing_text = serde_json::to_string(&failing).unwrap_or_default();
            if let Some(k) = known.iter().find(|k| {
                k.status == "open" && k.property == prop && v.oracle.starts_with(&k.oracle_prefix) && (k.replay_contains.is_empty() || failing_text.contains(&k.replay_contains.replace(' ', "")))
            }) {
                st.c.inc(&format!("known_finding.{}", k.what));
                run += step;
                continue;
            }
            let (min_case, execs) = if v.oracle.starts_with("harness") {
                (failing.clone(), 0)
            } else {
                minimise::minimise(&prop, &failing, &v.oracle, 2000, Duration::from_secs(20))
            };
            // re-derive the message from the minimised case
            let mut scratch = Stats::default();
            let probe = min_case.clone();
            let (msg, final_case) = match props::check_case(&prop, &probe, &mut scratch) {
                Some((v2, r2)) if v2.oracle == v.oracle => (v2.msg, r2.unwrap_or(min_case)),
                _ => (v.msg.clone(), failing),
            };
            let dir = verif_dir().join("replays");
            let _ = std::fs::create_dir_all(&dir);
            let path = dir.join(format!("{}-{}-{}.json", prop, master, run));
            let trace = Trace {
                property: prop.clone(),
                master_seed: master,
                run,
                sub_seed: sub,
                case: final_case,
                violation: Some(msg.clone()),
                oracle: Some(v.oracle.clone()),
                minimised: execs > 0,
            };
            let _ = std::fs::write(&path, serde_json::to_string_pretty(&trace).unwrap());
            rep.violations.push(ViolationRec {
                run,
                sub_seed: sub,
                oracle: v.oracle.clone(),
                msg,
                replay: path.to_string_lossy().to_string(),
                minimise_execs: execs,
            });
            if rep.violations.len() >= 2 {
                break;
            }
        }
        run += step;
    }
    rep.evaluations = st.evaluations;
    rep.public_calls = st.public_calls;
    rep.io_calls = st.io_calls;
    rep.counters = st.c.0.clone();
    rep.samples = st.samples.clone();
    rep.wall_s = start.elapsed().as_secs_f64();
    rep.n_distinct = st.distinct.len() as u64;
    write_set(&out.with_extension("distinct"), &st.distinct);
    write_set(&out.with_extension("nontrivial"), &st.nontrivial);
    write_set(&out.with_extension("states"), &st.states);
    std::fs::write(&out, serde_json::to_string(&rep).unwrap()).unwrap();
    let _ = std::fs::remove_file(out.with_extension("cur"));
    0
}

#[derive(serde::Deserialize, Default)]
struct KnownFinding {
    status: String,
    property: String,
    #[serde(default)]
    oracle_prefix: String,
    #[serde(default)]
    replay_contains: String,
    #[serde(default)]
    what: String,
    #[serde(default)]
    #[allow(dead_code)]
    commit: String,
}

#[derive(serde::Deserialize, Default)]
struct KnownFile {
    #[serde(default)]
    findings: Vec<KnownFinding>,
}

fn load_known() -> Vec<KnownFinding> {
    let p = verif_dir().join("known-findings.json");
    match std::fs::read_to_string(&p) {
        Ok(s) => serde_json::from_str::<KnownFile>(&s).map(|k| k.findings).unwrap_or_default(),
        Err(_) => Vec::new(),
    }
}

fn replay_file(path: &str) -> i32 {
    init_runtime();
    let s = match std::fs::read_to_string(path) {
        Ok(s) => s,
        Err(e) => {
            eprintln!("cannot read {}: {}", path, e);
            return 2;
        }
    };
    let t: Trace = match serde_json::from_str(&s) {
        Ok(t) => t,
        Err(e) => {
            eprintln!("cannot parse {}: {}", path, e);
            return 2;
        }
    };
    if std::env::var_os("VERIF_VERBOSE").is_some() && !matches!(t.case, Case::Open(_)) {
        let plan = run::case_env(&t.case).clone();
        let mut o = run::RunOpts::default();
        o.keep_io = true;
        let r = run::run_case(&t.case, &plan, &o);
        for (i, rec) in r.recs.iter().enumerate() {
            println!("  #{:<4} clock {:>5}..{:<5} {} -> {}", i, rec.clock_before, rec.clock_after, rec.op, rec.res.short());
        }
        for f in r.env.fired() {
            println!("  fired: {:?}", f);
        }
    }
    let mut st = Stats::default();
    match props::check_case(&t.property, &t.case, &mut st) {
        Some((v, _)) => {
            println!("REPLAY property={} oracle={} : {}", v.property, v.oracle, v.msg);
            println!("VIOLATION property={} replay={}", t.property, path);
            1
        }
        None => {
            println!("REPLAY property={} : no violation", t.property);
            0
        }
    }
}

fn spawn_workers(
    prop: &str,
    tier: &str,
    master: u64,
    total: u64,
    jobs: u64,
    cap: f64,
    digests: bool,
    tag: &str,
) -> Result<Vec<(PathBuf, Option<String>)>, String> {
    let exe = std::env::current_exe().map_err(|e| e.to_string())?;
    let shard_dir = verif_dir().join("target").join("shards");
    std::fs::create_dir_all(&shard_dir).map_err(|e| e.to_string())?;
    let mut children = Vec::new();
    let mut outs = Vec::new();
    for w in 0..jobs {
        let out = shard_dir.join(format!("{}-{}-{}-{}.json", prop, tag, std::process::id(), w));
        let _ = std::fs::remove_file(&out);
        let mut cmd = Command::new(&exe);
        cmd.arg("worker")
            .args(["--prop", prop, "--tier", tier])
            .args(["--seed", &master.to_string()])
            .args(["--first", &w.to_string(), "--step", &jobs.to_string(), "--total", &total.to_string()])
            .args(["--cap", &cap.to_string()])
            .args(["--out", &out.to_string_lossy()])
            .stdin(Stdio::null());
        if digests {
            cmd.arg("--digests");
        }
        let child = cmd.spawn().map_err(|e| format!("spawn worker: {}", e))?;
        children.push((w, child));
        outs.push(out);
    }
    let mut res = Vec::new();
    for ((w, mut ch), out) in children.into_iter().zip(outs.into_iter()) {
        let status = ch.wait().map_err(|e| e.to_string())?;
        if status.code() == Some(3) {
            return Err(format!("worker {} of {} reported a determinism mismatch", w, prop));
        }
        if !status.success() {
            res.push((out, Some(format!("worker {} of {} died with {:?}", w, prop, status))));
        } else {
            res.push((out, None));
        }
    }
    Ok(res)
}

fn check(args: &[String]) -> i32 {
    let prop = match arg(args, "--prop") {
        Some(p) => p,
        None => {
            eprintln!("--prop required");
            return 2;
        }
    };
    if !props::CLAIMED.contains(&prop.as_str()) {
        eprintln!("property {} is not claimed", prop);
        return 2;
    }
    let tier_s = arg(args, "--tier").or_else(|| std::env::var("VERIF_TIER").ok()).unwrap_or_else(|| "quick".into());
    let tier = tier_of(&tier_s);
    let master: u64 = arg(args, "--seed")
        .or_else(|| std::env::var("VERIF_SEED").ok())
        .and_then(|s| s.parse().ok())
        .unwrap_or(DEFAULT_SEED);
    let ncpu = std::thread::available_parallelism().map(|n| n.get() as u64).unwrap_or(4);
    let jobs: u64 = arg(args, "--jobs").and_then(|s| s.parse().ok()).unwrap_or(ncpu).max(1);
    let total: u64 = arg(args, "--runs").and_then(|s| s.parse().ok()).unwrap_or_else(|| props::budget(&prop, tier));
    let cap = match tier {
        Tier::Quick => 240.0,
        Tier::Thorough => 3000.0,
    };
    let start = Instant::now();
    println!("grenad-sim check property={} tier={} VERIF_SEED={} runs={} workers={}", prop, tier_s, master, total, jobs);
    let outs = match spawn_workers(&prop, &tier_s, master, total, jobs, cap, false, "chk") {
        Ok(o) => o,
        Err(e) => {
            eprintln!("HARNESS-ERROR: {}", e);
            return 2;
        }
    };
    // merge
    let mut counters = Counters::default();
    let mut runs = 0u64;
    let mut evals = 0u64;
    let mut public_calls = 0u64;
    let mut io_calls = 0u64;
    let mut samples: Vec<serde_json::Value> = Vec::new();
    let mut violations: Vec<ViolationRec> = Vec::new();
    let mut cap_hit = false;
    let (mut distinct, mut nontrivial, mut states) = (Vec::new(), Vec::new(), Vec::new());
    let mut crash_violations: Vec<ViolationRec> = Vec::new();
    let mut live_outs = Vec::new();
    for (o, crash) in &outs {
        match crash {
            None => live_outs.push(o.clone()),
            Some(desc) => {
                // attribute the death to the run that was executing
                let cur = std::fs::read_to_string(o.with_extension("cur")).ok().and_then(|s| s.trim().parse::<u64>().ok());
                let _ = std::fs::remove_file(o.with_extension("cur"));
                match cur {
                    None => {
                        eprintln!("HARNESS-ERROR: {} (not attributable to a run)", desc);
                        return 2;
                    }
                    Some(run) => {
                        let sub = sub_seed(master, &prop, run);
                        let mut r = Rng::new(sub);
                        let case = props::gen_case_indexed(&prop, &mut r, tier, run);
                        let dir = verif_dir().join("replays");
                        let _ = std::fs::create_dir_all(&dir);
                        let path = dir.join(format!("{}-{}-{}.json", prop, master, run));
                        let msg = format!("the process executing run {} was killed ({}): abort, stack overflow or memory fault inside the code under test", run, desc);
                        let trace = Trace {
                            property: prop.clone(),
                            master_seed: master,
                            run,
                            sub_seed: sub,
                            case,
                            violation: Some(msg.clone()),
                            oracle: Some("process-abort".into()),
                            minimised: false,
                        };
                        let _ = std::fs::write(&path, serde_json::to_string_pretty(&trace).unwrap());
                        crash_violations.push(ViolationRec { run, sub_seed: sub, oracle: "process-abort".into(), msg, replay: path.to_string_lossy().to_string(), minimise_execs: 0 });
                    }
                }
            }
        }
    }
    let outs = live_outs;
    for o in &outs {
        let s = match std::fs::read_to_string(o) {
            Ok(s) => s,
            Err(e) => {
                eprintln!("HARNESS-ERROR: missing shard report {}: {}", o.display(), e);
                return 2;
            }
        };
        let rep: ShardReport = match serde_json::from_str(&s) {
            Ok(r) => r,
            Err(e) => {
                eprintln!("HARNESS-ERROR: bad shard report {}: {}", o.display(), e);
                return 2;
            }
        };
        counters.merge(&Counters(rep.counters.clone()));
        runs += rep.runs;
        evals += rep.evaluations;
        public_calls += rep.public_calls;
        io_calls += rep.io_calls;
        cap_hit |= rep.cap_hit;
        for s in rep.samples {
            if samples.len() < 3 {
                samples.push(s);
            }
        }
        violations.extend(rep.violations);
        read_set(&o.with_extension("distinct"), &mut distinct);
        read_set(&o.with_extension("nontrivial"), &mut nontrivial);
        read_set(&o.with_extension("states"), &mut states);
        for ext in ["distinct", "nontrivial", "states"] {
            let _ = std::fs::remove_file(o.with_extension(ext));
        }
        let _ = std::fs::remove_file(o);
    }
    for v in [&mut distinct, &mut nontrivial, &mut states] {
        v.sort_unstable();
        v.dedup();
    }
    violations.extend(crash_violations);
    violations.sort_by_key(|v| v.run);
    let wall = start.elapsed().as_secs_f64();
    // classify violations
    let known = load_known();
    let mut exit = 0;
    let mut reported: BTreeSet<String> = BTreeSet::new();
    let mut n_viol = 0;
    let mut known_hits: BTreeMap<String, u64> = BTreeMap::new();
    for v in &violations {
        if v.oracle.starts_with("harness") {
            eprintln!("HARNESS-ERROR: {} ({})", v.msg, v.replay);
            exit = 2;
            continue;
        }
        let replay_text = std::fs::read_to_string(&v.replay).unwrap_or_default();
        let k = known.iter().find(|k| {
            k.status == "open"
                && k.property == prop
                && v.oracle.starts_with(&k.oracle_prefix)
                && (k.replay_contains.is_empty() || replay_text.replace(' ', "").replace('\n', "").contains(&k.replay_contains.replace(' ', "")))
        });
        if let Some(k) = k {
            *known_hits.entry(k.what.clone()).or_insert(0) += 1;
            let _ = std::fs::remove_file(&v.replay);
            continue;
        }
        if !reported.insert(v.oracle.clone()) {
            continue;
        }
        // confirm in a fresh process
        let exe = std::env::current_exe().unwrap();
        let out = Command::new(&exe).arg("replay").arg(&v.replay).output();
        let confirmed = match out {
            Ok(o) if v.oracle == "process-abort" => !matches!(o.status.code(), Some(0) | Some(1) | Some(2)),
            Ok(o) => o.status.code() == Some(1) && String::from_utf8_lossy(&o.stdout).contains(&format!("oracle={} ", v.oracle)),
            Err(_) => false,
        };
        if !confirmed {
            eprintln!("HARNESS-ERROR: replay {} does not reproduce oracle {} in a fresh process", v.replay, v.oracle);
            exit = 2;
            continue;
        }
        n_viol += 1;
        println!("violation: run={} sub_seed={} oracle={} minimise_execs={}\n  {}", v.run, v.sub_seed, v.oracle, v.minimise_execs, v.msg);
        println!("VIOLATION property={} replay={}", prop, v.replay);
        if exit == 0 {
            exit = 1;
        }
    }
    for (k, n) in counters.0.iter() {
        if let Some(what) = k.strip_prefix("known_finding.") {
            *known_hits.entry(what.to_string()).or_insert(0) += *n;
        }
    }
    for (what, n) in &known_hits {
        println!("KNOWN-FINDING: property={} {} ({} occurrence(s) this run)", prop, what, n);
    }
    // reach self-assessment
    let mut warnings = Vec::new();
    for (k, v) in &counters.0 {
        if (k.starts_with("probe.") || k.starts_with("fired.")) && *v == 0 {
            warnings.push(format!("probe stuck at zero: {}", k));
        }
    }
    if cap_hit {
        warnings.push(format!("wall-clock cap hit: {} of {} runs executed", runs, total));
    }
    for w in &warnings {
        println!("warning: {}", w);
    }
    let fired: BTreeMap<&String, &u64> =
        counters.0.iter().filter(|(k, _)| k.starts_with("fired.") || k.starts_with("fault.") || k.starts_with("crash")).collect();
    let probes: BTreeMap<&String, &u64> = counters.0.iter().filter(|(k, _)| k.starts_with("probe.") || k.starts_with("split.")).collect();
    let other: BTreeMap<&String, &u64> = counters
        .0
        .iter()
        .filter(|(k, _)| !(k.starts_with("fired.") || k.starts_with("fault.") || k.starts_with("probe.") || k.starts_with("split.") || k.starts_with("crash")))
        .collect();
    let exhaustive_note = match prop.as_str() {
        "C12" => "exhaustive over the fault index k for each generated scenario; scenarios themselves are sampled",
        "C13" => "exhaustive over truncation lengths and single-byte trailer corruptions for each generated file; files themselves are sampled",
        _ => "sampled (seeded search), not exhaustive",
    };
    // summaries of instrumented builds (C17 thorough): embedded as measured by those runs
    let mut instrumented = serde_json::Map::new();
    if let Ok(list) = std::env::var("VERIF_EXTRA_EVIDENCE") {
        for path in list.split(':') {
            if let Ok(txt) = std::fs::read_to_string(path) {
                if let Ok(v) = serde_json::from_str::<serde_json::Value>(&txt) {
                    let name = if path.contains("asan") { "address_sanitizer_leak_sanitizer" } else { "miri_tree_borrows_tiny_generator" };
                    let summary = if path.contains("asan") {
                        json!({"runs": v["coverage"]["simulated_runs"], "violations": v["violations"], "wall_s": v["wall_s"], "fired": v["coverage"]["faults_and_schedule_events_fired"], "probes": v["coverage"]["rare_condition_probes"]})
                    } else {
                        json!({"runs": v["runs"], "violations": v["violations"].as_array().map(|a| a.len()), "wall_s": v["wall_s"], "public_calls": v["public_calls"]})
                    };
                    instrumented.insert(name.to_string(), summary);
                }
            }
        }
    }
    let evidence = json!({
        "property_id": prop,
        "tier": tier_s,
        "seed": master,
        "level": props::level(&prop),
        "wall_s": wall,
        "violations": n_viol,
        "coverage": {
            "evaluations": evals.max(1),
            "distinct_nontrivial": nontrivial.len(),
            "distinct_cases": distinct.len(),
            "rule": props::rule(&prop),
            "samples": samples,
            "exhaustive": false,
            "exhaustiveness": exhaustive_note,
            "simulated_runs": runs,
            "runs_requested": total,
            "runs_per_hour": if wall > 0.0 { (runs as f64 / wall * 3600.0) as u64 } else { 0 },
            "seeds": {"master": master, "first_sub_seed": sub_seed(master, &prop, 0), "last_sub_seed": sub_seed(master, &prop, total.saturating_sub(1)), "derivation": "sub = splitmix64-mix(mix(master, fnv1a(property)), run index); xoshiro256** stream per run"},
            "simulated_time": "not applicable: grenad has no clock, timer or deadline; logical time is the component-call clock",
            "logical_time": {"public_api_calls": public_calls, "simulated_io_calls": io_calls},
            "faults_and_schedule_events_fired": fired,
            "rare_condition_probes": probes,
            "distinct_states_reached": {"count": states.len(), "measure": match prop.as_str() {
                "C03" => "distinct cursor fingerprints (per level: recorded offset, hash of loaded block, in-block position) after an operation",
                "C07" | "C08" | "C17" => "distinct (spills, reallocations, max live chunks, max_nb_chunks) tuples",
                _ => "not measured for this property; see distinct_cases",
            }},
            "other_counters": other,
            "real_vs_stub": {
                "real": ["grenad (all modules, from /repo working tree, overflow-checks + debug-assertions on)", "snap", "flate2/miniz_oxide", "lz4_flex", "zstd (C)", "rayon (1 worker natively)", "grenad 0.4.7 (oracle)", "CursorVec / TempFileChunk + kernel files in a labelled minority of sorter runs"],
                "stub": ["disk: SimFile", "chunk storage: SimFs", "merge functions: SimMerge", "allocator wrapper: VerifAlloc"]
            },
            "known_findings_hit": known_hits,
            "instrumented_builds": instrumented,
            "warnings": warnings,
            "workers": jobs,
        },
        "assumptions": [
            "sampling: a clean batch is evidence, not proof",
            "the reference model (sorted vector, answers by definition) and the independent decoder are correct",
            "codec crates behave as specified; they are real, not modelled",
        ],
    });
    let evdir = verif_dir().join("evidence");
    let _ = std::fs::create_dir_all(&evdir);
    let evpath = evdir.join(format!("{}.json", prop));
    if let Err(e) = std::fs::write(&evpath, serde_json::to_string_pretty(&evidence).unwrap()) {
        eprintln!("HARNESS-ERROR: cannot write evidence: {}", e);
        return 2;
    }
    println!(
        "property={} tier={} runs={} evaluations={} distinct_nontrivial={} violations={} wall={:.1}s evidence={}",
        prop,
        tier_s,
        runs,
        evals,
        nontrivial.len(),
        n_viol,
        wall,
        evpath.display()
    );
    let _ = std::io::stdout().flush();
    exit
}

/// Determinism self-test: every sub-seed executed in different processes at worker counts
/// 1, 4 and 16 (and twice at 4) must give identical per-run digests.
fn selftest(args: &[String]) -> i32 {
    let props_list: Vec<String> = match arg(args, "--prop") {
        Some(p) => vec![p],
        None => props::CLAIMED.iter().map(|s| s.to_string()).collect(),
    };
    let master: u64 = arg(args, "--seed").and_then(|s| s.parse().ok()).unwrap_or(DEFAULT_SEED);
    let mut bad = 0;
    for prop in props_list {
        let runs: u64 = arg(args, "--runs").and_then(|s| s.parse().ok()).unwrap_or(match prop.as_str() {
            "C12" | "C13" => 48,
            "C08" | "C16" => 400,
            _ => 2000,
        });
        let mut all: Vec<BTreeMap<u64, u64>> = Vec::new();
        for (jobs, tag) in [(1u64, "st1"), (4, "st4a"), (4, "st4b"), (16, "st16")] {
            let outs = match spawn_workers(&prop, "quick", master, runs, jobs, 3000.0, true, tag) {
                Ok(o) => o,
                Err(e) => {
                    eprintln!("HARNESS-ERROR: {}", e);
                    return 2;
                }
            };
            let mut m = BTreeMap::new();
            for (o, crash) in outs {
                if let Some(c) = crash {
                    eprintln!("HARNESS-ERROR: {}", c);
                    return 2;
                }
                let rep: ShardReport = serde_json::from_str(&std::fs::read_to_string(&o).unwrap()).unwrap();
                // digests depend on cumulative counters of the worker, so recompute per-run part only
                for (run, d) in rep.digests {
                    m.insert(run, d);
                }
                for ext in ["distinct", "nontrivial", "states"] {
                    let _ = std::fs::remove_file(o.with_extension(ext));
                }
                let _ = std::fs::remove_file(o);
            }
            all.push(m);
        }
        let ok = all[0] == all[1] && all[1] == all[2] && all[2] == all[3] && all[0].len() as u64 == runs;
        println!("selftest property={} runs={} digests at 1/4/4/16 workers: {}", prop, runs, if ok { "identical" } else { "DIFFERENT" });
        if !ok {
            bad += 1;
        }
    }
    if bad > 0 {
        2
    } else {
        0
    }
}

fn main() {
    let args: Vec<String> = std::env::args().collect();
    let code = match args.get(1).map(|s| s.as_str()) {
        Some("check") => check(&args),
        Some("worker") => worker(&args),
        Some("replay") => match args.get(2) {
            Some(p) => replay_file(p),
            None => 2,
        },
        Some("selftest") => selftest(&args),
        Some("gen") => {
            // print the case a given run index generates (debugging aid)
            let prop = arg(&args, "--prop").unwrap_or_else(|| "C01".into());
            let tier = tier_of(&arg(&args, "--tier").unwrap_or_default());
            let master: u64 = arg(&args, "--seed").and_then(|s| s.parse().ok()).unwrap_or(DEFAULT_SEED);
            let run: u64 = arg(&args, "--run").and_then(|s| s.parse().ok()).unwrap_or(0);
            let mut r = Rng::new(sub_seed(master, &prop, run));
            let case = if args.iter().any(|a| a == "--tiny") { props_env::gen_tiny(&mut r) } else { props::gen_case_indexed(&prop, &mut r, tier, run) };
            if args.iter().any(|a| a == "--full") {
                println!("{}", serde_json::to_string(&case).unwrap());
            } else {
                println!("{}", run::summarize_case(&case));
            }
            0
        }
        _ => {
            eprintln!("usage: grenad-sim check --prop <ID> --tier quick|thorough | replay <file> | selftest");
            2
        }
    };
    std::process::exit(code);
}
