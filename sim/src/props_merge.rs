//! C06: k-way merge.

use crate::case::*;
use crate::gen::{self, Tier};
use crate::model;
use crate::props_file::Verdict;
use crate::rng::{fnv1a, Rng};
use crate::run::{run_case, RunOpts, Stats};

fn viol(oracle: &str, msg: String) -> Verdict {
    Some((Violation::new("C06", oracle, msg), None))
}

pub fn gen_merge_case(rng: &mut Rng, tier: Tier) -> MergeCase {
    let mut k = rng.weighted(&[5, 10, 25, 25, 15, 10, 10]);
    // "any number of sources": one run in twenty merges many tiny sources, counts around powers of two
    let many = rng.chance(1, 20);
    if many {
        k = match rng.below(4) {
            0 => rng.urange(7, 70),
            _ => {
                let p = *rng.pick(&[8usize, 16, 32, 64]);
                p + rng.urange(0, 2) - 1
            }
        };
    }
    // shared key pool
    let pool_n = if many { rng.urange(1, 6) } else { rng.urange(1, if tier == Tier::Quick { 120 } else { 600 }) };
    let class = [gen::KeyClass::Alpha, gen::KeyClass::Counter, gen::KeyClass::Random, gen::KeyClass::Long, gen::KeyClass::Family][rng.usize_below(5)];
    let pool = gen::gen_keys(rng, pool_n, class, 1024);
    let mut sources = Vec::new();
    let mut next_id: u32 = 0;
    for si in 0..k {
        let mut knobs = gen::gen_knobs(rng, false);
        knobs.ctor = 0;
        if rng.chance(1, 2) {
            knobs.block_size = Some(1024);
        }
        if many {
            knobs.levels = knobs.levels.min(1);
            if knobs.codec == 4 {
                knobs.codec = 5;
            }
        }
        let style = if many { *rng.pick(&[1u64, 1, 1, 4, 0]) } else { rng.below(6) };
        let mut ents = Vec::new();
        for (pi, key) in pool.iter().enumerate() {
            let take = match style {
                0 => false,                       // empty source
                1 => true,                        // identical key sets
                2 => pi % k.max(1) == si,         // disjoint
                3 => pi < pool.len() / (si + 1),  // nested
                _ => rng.chance(1, 2),
            };
            if take {
                let pad = if rng.chance(1, 10) { rng.urange(100, 700) } else { rng.urange(0, 12) };
                ents.push((B(key.clone()), B(gen::record(next_id, pad))));
                next_id += 1;
            }
        }
        sources.push(FileSpec { knobs, entries: Entries::Literal(ents) });
    }
    let attach = (0..k).map(|_| rng.below(3) as u8).collect();
    let mut out_knobs = gen::gen_knobs(rng, false);
    out_knobs.ctor = 0;
    MergeCase {
        sources,
        attach,
        mf: {
            let k = gen::gen_merge_kind(rng);
            // side stream: one merge in ten uses a merge function that hands back a borrowed
            // sub-slice of its first input
            let mut side = rng.clone();
            if side.chance(1, 10) {
                crate::env::MergeKind::BorrowedPrefix
            } else {
                k
            }
        },
        out_mode: rng.below(2) as u8,
        out_knobs,
        env: gen::gen_env(rng, true),
    }
}

pub fn gen_c06(rng: &mut Rng, tier: Tier) -> Case {
    Case::Merge(gen_merge_case(rng, tier))
}

pub fn check_c06(case: &Case, st: &mut Stats) -> Verdict {
    let Case::Merge(c) = case else { return viol("harness", "wrong case kind".into()) };
    let sources: Vec<Vec<(Vec<u8>, Vec<u8>)>> = c.sources.iter().map(|s| s.entries.materialize()).collect();
    let mut opts = RunOpts::default();
    opts.record_merge = true;
    let r = run_case(case, &c.env, &opts);
    st.absorb_env(&r);
    if let Some(e) = &r.setup_err {
        return viol("setup", e.clone());
    }
    let exp = model::expect_merge(c, &sources, None);
    if let Some((_i, oracle, msg)) = model::compare(&r.recs, &exp) {
        return viol(&oracle, msg);
    }
    // recorded merge calls: at most one per key, exactly one for keys held by >= 2 sources,
    // values in source-addition order, keys ascending
    let union = model::merge_union(&sources);
    let calls = r.env.0.borrow().merge_calls.clone();
    let mut seen = std::collections::BTreeMap::new();
    #[allow(unused_assignments, unused_variables)]
    let mut prev: Option<Vec<u8>> = None;
    for (k, vals) in &calls {
        if seen.insert(k.clone(), vals.clone()).is_some() {
            return viol("merge-called-twice", format!("merge function called more than once for key {:02x?}", k));
        }
        // (the order in which keys are handed to the merge function is not part of the statement)
        prev = Some(k.clone());
        match union.get(k) {
            None => return viol("merge-unknown-key", format!("merge function called for a key no source holds: {:02x?}", k)),
            Some(want) => {
                if want != vals {
                    return viol(
                        "merge-values-order",
                        format!("merge function received values in the wrong order/multiplicity for key {:02x?} ({} values, expected {})", k, vals.len(), want.len()),
                    );
                }
            }
        }
    }
    for (k, vals) in &union {
        if vals.len() >= 2 && !seen.contains_key(k) {
            return viol("merge-not-called", format!("key {:02x?} is held by {} sources but merge was never called", k, vals.len()));
        }
    }
    let multi = union.values().filter(|v| v.len() >= 2).count();
    st.c.add("keys_in_several_sources", multi as u64);
    st.c.add("merge_calls", calls.len() as u64);
    st.c.inc(&format!("sources.{}", c.sources.len()));
    if sources.iter().any(|s| s.is_empty()) && !sources.is_empty() {
        st.c.inc("probe.empty_source_present");
    }
    if union.values().any(|v| v.len() == sources.len() && sources.len() >= 3) {
        st.c.inc("probe.key_in_all_sources(k>=3)");
    }
    st.c.inc(if c.out_mode == 0 { "out.stream_iter" } else { "out.stream_writer" });
    let h = crate::run::transcript_digest(&r.recs) ^ fnv1a(&(c.sources.len() as u64).to_le_bytes());
    st.distinct.insert(h);
    if multi >= 1 && c.sources.len() >= 2 {
        st.nontrivial.insert(h);
    }
    None
}
