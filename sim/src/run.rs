//! run_case: execute any Case under a given environment plan and return the transcript.

use std::collections::BTreeSet;

use crate::case::*;
use crate::env::{Counters, Env, EnvPlan, IoEvent};
use crate::exec::*;

pub struct RunResult {
    pub recs: Vec<Rec>,
    pub io: Vec<Vec<IoEvent>>,
    pub env: Env,
    pub sort_obs: Option<SortObs>,
    pub setup_err: Option<String>,
    /// bytes of the files prepared in the (unsimulated) setup phase
    pub files: Vec<Vec<u8>>,
    pub fingerprints: Vec<u64>,
}

pub struct RunOpts {
    pub keep_io: bool,
    pub record_merge: bool,
    pub fingerprints: bool,
    pub sort_knobs_override: Option<SortKnobs>,
    pub continue_after_err: bool,
    pub lean: bool,
}

impl Default for RunOpts {
    fn default() -> RunOpts {
        RunOpts { keep_io: false, record_merge: false, fingerprints: false, sort_knobs_override: None, continue_after_err: false, lean: false }
    }
}

pub fn case_env(case: &Case) -> &EnvPlan {
    match case {
        Case::File(c) => &c.env,
        Case::Cursor(c) => &c.env,
        Case::Iter(c) => &c.env,
        Case::Merge(c) => &c.env,
        Case::Sort(c) => &c.env,
        Case::Open(_) => panic!("open case has no env"),
    }
}

pub fn with_env(case: &Case, plan: EnvPlan) -> Case {
    let mut c = case.clone();
    match &mut c {
        Case::File(c) => c.env = plan,
        Case::Cursor(c) => c.env = plan,
        Case::Iter(c) => c.env = plan,
        Case::Merge(c) => c.env = plan,
        Case::Sort(c) => c.env = plan,
        Case::Open(_) => {}
    }
    c
}

pub fn run_case(case: &Case, plan: &EnvPlan, opts: &RunOpts) -> RunResult {
    let env = Env::new(plan.clone());
    env.set_record(opts.keep_io);
    env.0.borrow_mut().record_merge = opts.record_merge;
    let mut tx = Tx::new(env.clone());
    tx.keep_io = opts.keep_io;
    tx.continue_after_err = opts.continue_after_err;
    let mut sort_obs = None;
    let mut setup_err = None;
    let mut files = Vec::new();
    let mut fps: Vec<u64> = Vec::new();
    match case {
        Case::File(c) => guarded(&mut tx, |tx| exec_file(tx, c)),
        Case::Cursor(c) => match file_bytes_for(&c.spec, c.v1) {
            Ok(b) => {
                files.push(b.clone());
                let want_fp = opts.fingerprints;
                guarded(&mut tx, |tx| {
                    exec_cursor(tx, c, b, &mut |_i, _op, cur| {
                        if want_fp {
                            let fp = cur.verif_fingerprint();
                            let mut h: u64 = 0xcbf2_9ce4_8422_2325;
                            for (o, bh, p) in fp {
                                for x in [o, bh, p.map(|p| p as u64 + 1).unwrap_or(0)] {
                                    h = (h ^ x).wrapping_mul(0x0000_0100_0000_01b3);
                                }
                            }
                            fps.push(h);
                        }
                    })
                })
            }
            Err(e) => setup_err = Some(e),
        },
        Case::Iter(c) => match file_bytes_for(&c.spec, c.v1) {
            Ok(b) => {
                files.push(b.clone());
                guarded(&mut tx, |tx| exec_iter(tx, c, b))
            }
            Err(e) => setup_err = Some(e),
        },
        Case::Merge(c) => {
            for s in &c.sources {
                match write_plain(s) {
                    Ok(b) => files.push(b),
                    Err(e) => {
                        setup_err = Some(e);
                        break;
                    }
                }
            }
            if setup_err.is_none() {
                let f = files.clone();
                guarded(&mut tx, |tx| exec_merge(tx, c, &f));
            }
        }
        Case::Sort(c) => {
            let knobs = opts.sort_knobs_override.clone().unwrap_or_else(|| c.knobs.clone());
            // real-scale histories: keep one record per kind of call, not one per call
            tx.lean = opts.lean;
            let mut o = None;
            guarded(&mut tx, |tx| o = Some(exec_sort(tx, c, &knobs)));
            sort_obs = o;
        }
        Case::Open(c) => {
            let r = exec_open(&c.bytes.0);
            tx.note("Reader::new", r);
        }
    }
    RunResult { recs: tx.recs, io: tx.io, env, sort_obs, setup_err, files, fingerprints: fps }
}

/// Accumulated measurements of one worker (merged across workers by the driver).
#[derive(Default, Clone)]
pub struct Stats {
    pub c: Counters,
    pub distinct: BTreeSet<u64>,
    pub nontrivial: BTreeSet<u64>,
    pub states: BTreeSet<u64>,
    pub samples: Vec<serde_json::Value>,
    pub evaluations: u64,
    pub public_calls: u64,
    pub io_calls: u64,
}

impl Stats {
    pub fn absorb_env(&mut self, r: &RunResult) {
        self.c.merge(&r.env.counters());
        self.public_calls += r.recs.len() as u64;
        self.io_calls += r.env.io_calls();
    }
    pub fn sample(&mut self, v: serde_json::Value) {
        if self.samples.len() < 3 {
            self.samples.push(v);
        }
    }
}

pub fn transcript_digest(recs: &[Rec]) -> u64 {
    let mut h: u64 = 0xcbf2_9ce4_8422_2325;
    for r in recs {
        let s = format!("{}={}", r.op, r.res.short());
        for b in s.as_bytes() {
            h = (h ^ *b as u64).wrapping_mul(0x0000_0100_0000_01b3);
        }
        // full content of entries, not only the short form
        if let Res::Entry(k, v) = &r.res {
            h ^= crate::rng::fnv1a(k).rotate_left(7) ^ crate::rng::fnv1a(v).rotate_left(13);
            h = h.wrapping_mul(0x0000_0100_0000_01b3);
        }
    }
    h
}

pub fn summarize_case(case: &Case) -> serde_json::Value {
    use serde_json::json;
    fn spec(s: &FileSpec) -> serde_json::Value {
        let ents = s.entries.materialize();
        let first: Vec<String> = ents
            .iter()
            .take(3)
            .map(|(k, v)| format!("{}=>{}B", k.iter().take(12).map(|b| format!("{:02x}", b)).collect::<String>(), v.len()))
            .collect();
        serde_json::json!({"knobs": s.knobs, "entries": ents.len(), "first_entries": first})
    }
    match case {
        Case::File(c) => json!({"kind":"file","spec":spec(&c.spec),"env":c.env,"v1":c.v1}),
        Case::Cursor(c) => {
            json!({"kind":"cursor","spec":spec(&c.spec),"env":c.env,"steps":c.steps.iter().take(12).collect::<Vec<_>>(),"n_steps":c.steps.len(),"fresh_each":c.fresh_each,"v1":c.v1})
        }
        Case::Iter(c) => {
            json!({"kind":"iter","spec":spec(&c.spec),"env":c.env,"queries":c.queries.iter().take(6).collect::<Vec<_>>(),"n_queries":c.queries.len(),"v1":c.v1})
        }
        Case::Merge(c) => {
            json!({"kind":"merge","n_sources":c.sources.len(),"first_sources":c.sources.iter().take(4).map(spec).collect::<Vec<_>>(),"attach":c.attach.iter().take(16).collect::<Vec<_>>(),"mf":c.mf,"out_mode":c.out_mode,"env":c.env})
        }
        Case::Sort(c) => {
            json!({"kind":"sort","inserts":c.inserts.len(),"knobs":c.knobs,"alt_knobs":c.alt_knobs.len(),"mf":c.mf,"consume":c.consume,"env":c.env})
        }
        Case::Open(c) => json!({"kind":"open","len":c.bytes.0.len()}),
    }
}
