//! Cursor properties: C02 seeks, C03 history independence, C16 I/O bound.

use crate::case::*;
use crate::decode;
use crate::env::{EnvPlan, IoKind};
use crate::gen::{self, Tier};
use crate::model;
use crate::props_file::Verdict;
use crate::rng::{fnv1a, Rng};
use crate::run::{run_case, RunOpts, Stats};

fn viol(p: &str, oracle: &str, msg: String) -> Verdict {
    Some((Violation::new(p, oracle, msg), None))
}

// ------------------------------------------------------------------------------------- C02

pub fn gen_c02(rng: &mut Rng, tier: Tier) -> Case {
    let mut spec = if rng.chance(1, 3) { gen::gen_layered_spec(rng, tier) } else { gen::gen_file_spec(rng, tier, true) };
    spec.knobs.ctor = 0;
    if spec.knobs.levels == 255 {
        spec.knobs.levels = 254; // 255 is C01/C17 territory (finish itself)
    }
    let Entries::Literal(mut ents) = spec.entries.clone() else { unreachable!() };
    let cap = if tier == Tier::Quick { 1500 } else { 5000 };
    if ents.len() > cap {
        ents.truncate(cap);
    }
    if spec.knobs.levels >= 7 && ents.len() > 40 {
        ents.truncate(40);
    }
    spec.entries = Entries::Literal(ents.clone());
    let keys: Vec<Vec<u8>> = ents.iter().map(|(k, _)| k.0.clone()).collect();
    // byte-wise schedules cost one simulated call per byte of every loaded block: keep the
    // exhaustive probe sets for whole-buffer runs and a sample for the chopped ones
    let env = if rng.chance(1, 2) { crate::env::EnvPlan::whole() } else { gen::gen_env(rng, true) };
    let slow_env = env.modes.iter().any(|m| match m {
        crate::env::IoMode::Whole => false,
        crate::env::IoMode::Chop { max } | crate::env::IoMode::ChopIntr { max, .. } | crate::env::IoMode::ChopBurst { max, .. } => *max < 64,
    });
    let budget = if spec.knobs.levels >= 7 {
        60
    } else if slow_env {
        90
    } else if tier == Tier::Quick {
        1200
    } else {
        6000
    };
    let probes = gen::gen_probes(rng, &keys, budget);
    let mut steps = Vec::new();
    for q in probes {
        for which in 0..3 {
            if budget < 100 && rng.chance(1, 2) {
                continue;
            }
            let op = match which {
                0 => Op::Ge(B(q.clone())),
                1 => Op::Le(B(q.clone())),
                _ => Op::Eq(B(q.clone())),
            };
            steps.push(CursorStep { cur: 0, op });
        }
    }
    let sparse_hole = crate::props_file::gen_hole(rng, 15);
    let mut env = env;
    if rng.chance(1, 5) {
        // transient-fault family: one read or seek of the source fails; every later probe runs on
        // a reset cursor and must be answered exactly
        env.faults = vec![crate::env::FaultSpec { k: rng.log_uniform(8, 2000), err: rng.below(9) as u8, sticky: false, merge_nth: 0, panic: false }];
    }
    Case::Cursor(CursorCase { spec, env, steps, fresh_each: true, v1: false, sparse_hole })
}

pub fn check_c02(case: &Case, st: &mut Stats) -> Verdict {
    if matches!(case, Case::File(f) if f.big.is_some()) {
        return crate::props_file::check_big_seeks(case, st);
    }
    let Case::Cursor(c) = case else { return viol("C02", "harness", "wrong case kind".into()) };
    let entries = c.spec.entries.materialize();
    let mut opts = RunOpts::default();
    opts.continue_after_err = !c.env.faults.is_empty();
    let r = run_case(case, &c.env, &opts);
    st.absorb_env(&r);
    if let Some(e) = &r.setup_err {
        return viol("C02", "setup", e.clone());
    }
    let fired = r.env.fired();
    let mut errs = std::collections::BTreeSet::new();
    for (i, rec) in r.recs.iter().enumerate() {
        if rec.res.is_err() && fired.iter().any(|f| rec.clock_before < f.k && f.k <= rec.clock_after) {
            errs.insert(i);
        }
    }
    if !fired.is_empty() {
        st.c.inc("fired.transient_source_fault_between_probes");
        if errs.iter().any(|i| *i < 2) {
            return None; // the open itself failed (judged by C12)
        }
    }
    let mut ms = model::CursorModelStats { window_entries: 0, abs_from_window: 0, judged: 0, unjudged: 0 };
    let exp = model::expect_cursor_with_errs(c, &entries, &mut ms, &errs);
    if let Some((_i, oracle, msg)) = model::compare_allowing(&r.recs, &exp, &errs) {
        let tag = if fired.is_empty() { oracle } else { format!("after-transient-fault.{}", oracle) };
        return viol("C02", &tag, msg);
    }
    st.c.add("seeks_judged", ms.judged);
    st.c.add("seeks_returning_none", ms.window_entries);
    let h = r.files.first().map(|b| fnv1a(b)).unwrap_or(0) ^ fnv1a(&(c.steps.len() as u64).to_le_bytes());
    st.distinct.insert(h);
    if entries.len() >= 2 && c.steps.len() >= 6 {
        st.nontrivial.insert(h);
    }
    st.c.inc(&format!("levels.{}", c.spec.knobs.levels.min(5)));
    None
}

// ------------------------------------------------------------------------------------- C03

/// A history of cursor operations over up to three cursors, with macro steps sized around
/// `per_block` so that relative moves cross data-block and index-block boundaries.
pub fn gen_history(rng: &mut Rng, keys: &[Vec<u8>], max_ops: usize, per_block: usize) -> Vec<CursorStep> {
    let n_ops = rng.urange(1, max_ops.max(1));
    let mut steps = Vec::with_capacity(n_ops);
    let mut ncur = 1u8;
    let pick_fresh = |rng: &mut Rng| -> Vec<u8> { pick_fresh_impl(rng, keys) };
    // the previous probe is reused now and then (the same seek repeated, GE then EQ of one key, ...)
    let last_probe: std::cell::RefCell<Option<Vec<u8>>> = std::cell::RefCell::new(None);
    let pick_key = |rng: &mut Rng| -> Vec<u8> {
        if rng.chance(1, 7) {
            if let Some(k) = last_probe.borrow().clone() {
                return k;
            }
        }
        let k = pick_fresh(rng);
        *last_probe.borrow_mut() = Some(k.clone());
        k
    };
    fn pick_fresh_impl(rng: &mut Rng, keys: &[Vec<u8>]) -> Vec<u8> {
        if keys.is_empty() || rng.chance(1, 8) {
            let l = rng.urange(0, 6);
            return rng.bytes(l);
        }
        let i = match rng.below(6) {
            0 => 0,
            1 => keys.len() - 1,
            _ => rng.usize_below(keys.len()),
        };
        let k = keys[i].clone();
        match rng.below(5) {
            0 => {
                let mut a = k;
                a.push(0);
                a
            }
            1 => gen::pred(&k),
            _ => k,
        }
    }
    for _ in 0..n_ops {
        let cur = rng.below(ncur as u64) as u8;
        let choice = rng.weighted(&[8, 8, 12, 12, 10, 10, 6, 4, 5, 6, 12, 12]);
        let op = match choice {
            0 => Op::First,
            1 => Op::Last,
            2 => Op::Next,
            3 => Op::Prev,
            4 => Op::Ge(B(pick_key(rng))),
            5 => Op::Le(B(pick_key(rng))),
            6 => Op::Eq(B(pick_key(rng))),
            7 => Op::Reset,
            8 => {
                if ncur < 3 {
                    ncur += 1;
                }
                Op::CloneFrom
            }
            9 => Op::Current,
            10 | 11 => {
                // geometric-ish around the entries per block / per index block
                let base = match rng.below(4) {
                    0 => 1,
                    1 => per_block.clamp(1, 100_000),
                    2 => per_block.max(1).saturating_mul(rng.urange(2, 12)).min(keys.len().max(1)),
                    _ => rng.urange(1, keys.len().max(1)),
                };
                let k = base.saturating_add(rng.urange(0, 3)).min(4000) as u32;
                if choice == 10 {
                    Op::NextN(k)
                } else {
                    Op::PrevN(k)
                }
            }
            _ => unreachable!(),
        };
        steps.push(CursorStep { cur, op });
    }
    steps
}

/// Post-pass over a generated history, using the model position of every cursor: relative macro
/// steps stop a little after the end of the file instead of far beyond it, and most relative moves
/// that would fall into the "after None" window (where nothing is judged) become absolute moves.
pub fn tune_history(rng: &mut Rng, keys: &[Vec<u8>], steps: &mut Vec<CursorStep>) {
    #[derive(Clone, Copy)]
    struct M {
        pos: Option<usize>,
        window: bool,
    }
    let n = keys.len();
    let mut curs = vec![M { pos: None, window: false }];
    for st in steps.iter_mut() {
        let idx = st.cur as usize % curs.len();
        let mut c = curs[idx];
        let relative = matches!(st.op, Op::Next | Op::Prev | Op::NextN(_) | Op::PrevN(_) | Op::Current);
        if c.window && relative && rng.chance(2, 3) {
            st.op = match rng.below(4) {
                0 => Op::First,
                1 => Op::Last,
                2 if n > 0 => Op::Ge(B(keys[rng.usize_below(n)].clone())),
                _ if n > 0 => Op::Le(B(keys[rng.usize_below(n)].clone())),
                _ => Op::Reset,
            };
        }
        let set = |c: &mut M, r: Option<usize>| match r {
            Some(i) => {
                c.pos = Some(i);
                c.window = false;
            }
            None => c.window = true,
        };
        match &mut st.op {
            Op::First => set(&mut c, if n > 0 { Some(0) } else { None }),
            Op::Last => set(&mut c, n.checked_sub(1)),
            Op::Ge(q) => {
                let i = keys.partition_point(|k| k.as_slice() < q.0.as_slice());
                set(&mut c, if i < n { Some(i) } else { None })
            }
            Op::Le(q) => {
                let i = keys.partition_point(|k| k.as_slice() <= q.0.as_slice());
                set(&mut c, i.checked_sub(1))
            }
            Op::Eq(q) => {
                let i = keys.partition_point(|k| k.as_slice() < q.0.as_slice());
                set(&mut c, if i < n && keys[i] == q.0 { Some(i) } else { None })
            }
            Op::Reset => c = M { pos: None, window: false },
            Op::Current => {}
            Op::CloneFrom => {
                if curs.len() < 4 {
                    curs.push(c);
                } else {
                    let l = curs.len() - 1;
                    curs[l] = c;
                }
            }
            Op::Next | Op::NextN(_) => {
                if !c.window {
                    let remaining = match c.pos {
                        None => n,
                        Some(i) => n - 1 - i,
                    };
                    let k = match &mut st.op {
                        Op::NextN(k) => {
                            *k = (*k).min(remaining as u32 + rng.below(3) as u32).max(1);
                            *k as usize
                        }
                        _ => 1,
                    };
                    if k > remaining {
                        c.window = true;
                        c.pos = if n > 0 { Some(n - 1) } else { None };
                    } else {
                        c.pos = Some(match c.pos {
                            None => k - 1,
                            Some(i) => i + k,
                        });
                    }
                }
            }
            Op::Prev | Op::PrevN(_) => {
                if !c.window {
                    let remaining = match c.pos {
                        None => n,
                        Some(i) => i,
                    };
                    let k = match &mut st.op {
                        Op::PrevN(k) => {
                            *k = (*k).min(remaining as u32 + rng.below(3) as u32).max(1);
                            *k as usize
                        }
                        _ => 1,
                    };
                    if k > remaining {
                        c.window = true;
                        c.pos = if n > 0 { Some(0) } else { None };
                    } else {
                        c.pos = Some(match c.pos {
                            None => n - k,
                            Some(i) => i - k,
                        });
                    }
                }
            }
        }
        curs[idx] = c;
    }
}

pub fn gen_c03(rng: &mut Rng, tier: Tier) -> Case {
    let mut spec = if rng.chance(3, 4) { gen::gen_layered_spec(rng, tier) } else { gen::gen_file_spec(rng, tier, true) };
    spec.knobs.ctor = 0;
    if spec.knobs.levels == 255 {
        spec.knobs.levels = 254;
    }
    let Entries::Literal(mut ents) = spec.entries.clone() else { unreachable!() };
    if spec.knobs.levels >= 7 && ents.len() > 30 {
        ents.truncate(30);
    }
    if ents.len() > 2500 {
        ents.truncate(2500);
    }
    spec.entries = Entries::Literal(ents.clone());
    let keys: Vec<Vec<u8>> = ents.iter().map(|(k, _)| k.0.clone()).collect();
    let bsz = spec.knobs.effective_block_size();
    let avg = if ents.is_empty() { 1 } else { ents.iter().map(|(k, v)| k.0.len() + v.0.len() + 2).sum::<usize>() / ents.len() };
    let per_block = (bsz / avg.max(1)).max(1);
    let max_ops = if tier == Tier::Quick { 60 } else { 200 };
    let mut steps = gen_history(rng, &keys, max_ops, per_block);
    if rng.chance(4, 5) {
        tune_history(rng, &keys, &mut steps);
    }
    let mut env = gen::gen_env(rng, true);
    if rng.chance(1, 4) {
        // transient-fault family: one read or seek of the source fails somewhere in the history
        env.faults = vec![crate::env::FaultSpec { k: rng.log_uniform(8, 3000), err: rng.below(9) as u8, sticky: false, merge_nth: 0, panic: false }];
    }
    let sparse_hole = crate::props_file::gen_hole(rng, 15);
    Case::Cursor(CursorCase { spec, env, steps, fresh_each: false, v1: false, sparse_hole })
}

pub fn check_c03(case: &Case, st: &mut Stats) -> Verdict {
    let Case::Cursor(c) = case else { return viol("C03", "harness", "wrong case kind".into()) };
    let entries = c.spec.entries.materialize();
    let mut opts = RunOpts::default();
    opts.fingerprints = true;
    opts.continue_after_err = !c.env.faults.is_empty();
    let r = run_case(case, &c.env, &opts);
    st.absorb_env(&r);
    if let Some(e) = &r.setup_err {
        return viol("C03", "setup", e.clone());
    }
    // records that failed because of the injected transient fault (the fault fired inside them)
    let fired = r.env.fired();
    let mut errs = std::collections::BTreeSet::new();
    for (i, rec) in r.recs.iter().enumerate() {
        if rec.res.is_err() && fired.iter().any(|f| rec.clock_before < f.k && f.k <= rec.clock_after) {
            errs.insert(i);
        }
    }
    if !fired.is_empty() {
        st.c.inc("fired.transient_source_fault_inside_history");
        if errs.iter().any(|i| *i < 2) {
            return None; // the open itself failed: nothing to judge (C12 judges the error)
        }
    }
    let mut ms = model::CursorModelStats { window_entries: 0, abs_from_window: 0, judged: 0, unjudged: 0 };
    let exp = model::expect_cursor_with_errs(c, &entries, &mut ms, &errs);
    if let Some((_i, oracle, msg)) = model::compare_allowing(&r.recs, &exp, &errs) {
        let tag = if fired.is_empty() { oracle } else { format!("after-transient-fault.{}", oracle) };
        return viol("C03", &tag, msg);
    }
    if !errs.is_empty() {
        st.c.add("probe.absolute_move_judged_after_a_failed_call", ms.abs_from_window.min(1));
    }
    st.c.add("ops_judged", ms.judged);
    st.c.add("ops_unjudged_in_window", ms.unjudged);
    st.c.add("probe.window_entered", ms.window_entries);
    st.c.add("probe.absolute_move_from_inside_window", ms.abs_from_window);
    for (i, fp) in r.fingerprints.iter().enumerate() {
        st.states.insert(*fp);
        let opk = match &c.steps[i].op {
            Op::First => 1u64,
            Op::Last => 2,
            Op::Next | Op::NextN(_) => 3,
            Op::Prev | Op::PrevN(_) => 4,
            Op::Ge(_) => 5,
            Op::Le(_) => 6,
            Op::Eq(_) => 7,
            Op::Reset => 8,
            Op::CloneFrom => 9,
            Op::Current => 10,
        };
        st.distinct.insert(fp.rotate_left(5) ^ opk);
    }
    if c.spec.knobs.levels >= 2 {
        if let Some(f) = r.files.first() {
            if let Ok(d) = decode::decode(f, None) {
                let multi = (1..=d.levels as usize).any(|dep| d.blocks.iter().filter(|b| b.depth == dep).count() >= 2);
                if multi {
                    st.c.inc("probe.history_on_file_with_2+_blocks_at_nonroot_level");
                }
            }
        }
    }
    let h = crate::run::transcript_digest(&r.recs);
    if ms.judged >= 3 {
        st.nontrivial.insert(h);
    }
    None
}

// ------------------------------------------------------------------------------------- C16

/// Prefix families: each stem K is followed by dozens of longer keys K ++ [c] ++ ..., with values
/// large enough that the extensions of one stem span many data blocks; the history positions the
/// cursor on K and then seeks K ++ [b].
fn gen_c16_families(rng: &mut Rng) -> Case {
    let levels = *rng.pick(&[0u8, 0, 1, 2]);
    let stems = rng.urange(2, 8);
    let vlen = rng.urange(200, 500);
    let mut ents = Vec::new();
    let mut stem_keys = Vec::new();
    for sidx in 0..stems {
        let stem = vec![b'k', sidx as u8 * 2 + 1, 0x10];
        stem_keys.push(stem.clone());
        ents.push((B(stem.clone()), B(vec![sidx as u8; 8])));
        let c = rng.urange(1, 3) as u8;
        for j in 0..rng.urange(20, 70) {
            let mut k = stem.clone();
            k.push(c);
            k.extend_from_slice(&(j as u16).to_be_bytes());
            ents.push((B(k), B(vec![j as u8; vlen])));
        }
    }
    ents.sort();
    let knobs = Knobs { codec: 0, level: 0, block_size: Some(1024), interval: None, levels, ctor: 0, fin: 0 };
    let mut steps = Vec::new();
    for _ in 0..rng.urange(2, 8) {
        let k = stem_keys[rng.usize_below(stem_keys.len())].clone();
        steps.push(CursorStep { cur: 0, op: Op::Eq(B(k.clone())) });
        let mut t = k.clone();
        t.push(rng.urange(1, 9) as u8);
        steps.push(CursorStep { cur: 0, op: match rng.below(3) { 0 => Op::Ge(B(t)), 1 => Op::Le(B(t)), _ => Op::Eq(B(t)) } });
    }
    Case::Cursor(CursorCase { spec: FileSpec { knobs, entries: Entries::Literal(ents) }, env: crate::env::EnvPlan::whole(), steps, fresh_each: false, v1: false, sparse_hole: None })
}

/// Genuinely deep index trees: keys of a few hundred bytes under 1 KiB blocks give every index block
/// a fan-out of 2-4, so that with 3-8 index levels a relative move (or the step back of a floor
/// seek) regularly exhausts two, three or more index levels at once.
fn gen_c16_deep(rng: &mut Rng, tier: Tier) -> Case {
    let klen = *rng.pick(&[250usize, 330, 400, 500, 700, 1000]);
    let levels = *rng.pick(&[2u8, 3, 4, 4, 5, 6, 8]);
    let n = rng.urange(8, if tier == Tier::Quick { 300 } else { 1200 });
    let mut ents = Vec::new();
    let key_of = |x: u32, klen: usize| -> Vec<u8> {
        let mut k = x.to_be_bytes().to_vec();
        k.resize(klen, 0xAB);
        k
    };
    for i in 0..n {
        let v = vec![i as u8; rng.urange(0, 8)];
        ents.push((B(key_of(6 + 2 * i as u32, klen)), B(v)));
    }
    let knobs = Knobs { codec: rng.weighted(&[70, 0, 10, 10, 0, 10]) as u8, level: 1, block_size: Some(1024), interval: *rng.pick(&[None, Some(1)]), levels, ctor: 0, fin: 0 };
    let probe = |rng: &mut Rng| -> Vec<u8> {
        let x = rng.range(4, 8 + 2 * n as u64) as u32;
        match rng.below(4) {
            // the bare counter: absent, its ceiling is the entry carrying that counter
            0 => (x & !1).to_be_bytes().to_vec(),
            // between two entries
            1 => key_of(x | 1, klen),
            _ => key_of(x & !1, klen),
        }
    };
    let mut steps = Vec::new();
    for _ in 0..rng.urange(4, if tier == Tier::Quick { 60 } else { 150 }) {
        let op = match rng.weighted(&[4, 4, 12, 12, 14, 24, 8, 2, 2, 9, 9]) {
            0 => Op::First,
            1 => Op::Last,
            2 => Op::Next,
            3 => Op::Prev,
            4 => Op::Ge(B(probe(rng))),
            5 => Op::Le(B(probe(rng))),
            6 => Op::Eq(B(probe(rng))),
            7 => Op::Reset,
            8 => Op::Current,
            9 => Op::NextN(rng.log_uniform(1, 40) as u32),
            _ => Op::PrevN(rng.log_uniform(1, 40) as u32),
        };
        steps.push(CursorStep { cur: 0, op });
    }
    let fresh_each = rng.chance(1, 4);
    let mut env = crate::env::EnvPlan::whole();
    // side stream: one deep-tree history in three meets one transient source fault (a failing
    // operation, and the operations after it, are bounded like any other)
    let mut side = rng.clone();
    if !fresh_each && side.chance(1, 3) {
        env.faults = vec![crate::env::FaultSpec { k: side.log_uniform(4, 1500), err: side.below(9) as u8, sticky: false, merge_nth: 0, panic: false }];
    }
    Case::Cursor(CursorCase { spec: FileSpec { knobs, entries: Entries::Literal(ents) }, env, steps, fresh_each, v1: false, sparse_hole: None })
}

/// Clones of positioned cursors whose original then leaves the block (or is reset) before the clone
/// is looked at: whatever a clone hands back must come from memory the clone itself keeps alive.
pub fn gen_clone_alias(rng: &mut Rng, tier: Tier) -> Case {
    let Case::Cursor(mut c) = gen_c16_deep(rng, tier) else { unreachable!() };
    c.fresh_each = false;
    let n = c.spec.entries.len() as u64;
    let key_of = |x: u64, c: &CursorCase| -> Vec<u8> {
        let ents = c.spec.entries.materialize();
        ents[(x % ents.len().max(1) as u64) as usize].0.clone()
    };
    let mut steps = Vec::new();
    let mut ncur = 1u8;
    for _ in 0..rng.urange(1, 4) {
        let a = rng.below(ncur as u64) as u8;
        let k = key_of(rng.below(n.max(1)), &c);
        steps.push(CursorStep { cur: a, op: match rng.below(4) { 0 => Op::First, 1 => Op::Last, 2 => Op::Ge(B(k)), _ => Op::Le(B(k)) } });
        if ncur >= 4 {
            break;
        }
        steps.push(CursorStep { cur: a, op: Op::CloneFrom });
        let b = ncur;
        ncur += 1;
        // the original goes away
        let k2 = key_of(rng.below(n.max(1)), &c);
        steps.push(CursorStep {
            cur: a,
            op: match rng.below(6) {
                0 => Op::Last,
                1 => Op::First,
                2 => Op::NextN(rng.urange(3, 40) as u32),
                3 => Op::PrevN(rng.urange(3, 40) as u32),
                4 => Op::Reset,
                _ => Op::Ge(B(k2)),
            },
        });
        // the clone is looked at before it moves, then moves
        steps.push(CursorStep { cur: b, op: Op::Current });
        steps.push(CursorStep { cur: b, op: if rng.chance(1, 2) { Op::Next } else { Op::Prev } });
        steps.push(CursorStep { cur: b, op: Op::Current });
        steps.push(CursorStep { cur: a, op: Op::Current });
    }
    c.steps = steps;
    Case::Cursor(c)
}

pub fn gen_c16(rng: &mut Rng, tier: Tier) -> Case {
    if rng.chance(1, 8) {
        return gen_c16_families(rng);
    }
    if rng.chance(1, 7) {
        return gen_c16_deep(rng, tier);
    }
    let levels = [0u8, 1, 2, 3, 4, 254][rng.weighted(&[20, 20, 25, 15, 15, 5])];
    let maxn: u64 = if levels == 254 {
        30
    } else if tier == Tier::Quick {
        60_000
    } else {
        200_000
    };
    let mut n = rng.log_uniform(0, maxn);
    let width = if n > 60_000 { 4 } else { *rng.pick(&[3u8, 4, 8]) };
    // one profile in five: entries about as large as a block, so every entry is its own data block
    let mut vlen = *rng.pick(&[0u32, 4, 4, 16, 100]);
    if rng.chance(1, 5) {
        vlen = *rng.pick(&[600u32, 1100, 1500, 5000]);
        n = n.min(if tier == Tier::Quick { 1500 } else { 6000 });
    }
    let knobs = Knobs {
        codec: rng.weighted(&[50, 5, 10, 15, 10, 10]) as u8,
        level: 1,
        block_size: *rng.pick(&[None, Some(1024), Some(1024), Some(4096)]),
        interval: *rng.pick(&[None, Some(1), Some(16)]),
        levels,
        ctor: 0,
        fin: 0,
    };
    let stride = *rng.pick(&[1u64, 3]);
    let spec = FileSpec { knobs, entries: Entries::Counter { n, width, start: 5, stride, vlen } };
    // history: keys are synthesized from the counter range
    let pick_key = |rng: &mut Rng| -> Vec<u8> {
        let x = rng.range(0, 5 + n * stride + 3);
        let mut k = x.to_be_bytes()[8 - width as usize..].to_vec();
        match rng.below(8) {
            // probes that are proper prefixes of many stored keys, or extensions of one
            0 | 1 => k.truncate(rng.urange(0, width as usize - 1)),
            2 => k.push(rng.below(256) as u8),
            _ => {}
        }
        k
    };
    let n_ops = rng.urange(1, if tier == Tier::Quick { 40 } else { 120 });
    let mut steps = Vec::new();
    let mut ncur = 1u8;
    for _ in 0..n_ops {
        let cur = rng.below(ncur as u64) as u8;
        let op = match rng.weighted(&[8, 8, 10, 10, 14, 12, 8, 3, 4, 4, 10, 9]) {
            0 => Op::First,
            1 => Op::Last,
            2 => Op::Next,
            3 => Op::Prev,
            4 => Op::Ge(B(pick_key(rng))),
            5 => Op::Le(B(pick_key(rng))),
            6 => Op::Eq(B(pick_key(rng))),
            7 => Op::Reset,
            8 => {
                if ncur < 3 {
                    ncur += 1
                }
                Op::CloneFrom
            }
            9 => Op::Current,
            10 => Op::NextN(rng.log_uniform(1, 600) as u32),
            _ => Op::PrevN(rng.log_uniform(1, 600) as u32),
        };
        steps.push(CursorStep { cur, op });
    }
    let mut env = gen::gen_env(rng, true);
    if rng.chance(1, 5) {
        // a failing operation is still one operation: its I/O is bounded like any other
        env.faults = vec![crate::env::FaultSpec { k: rng.log_uniform(8, 4000), err: rng.below(9) as u8, sticky: false, merge_nth: 0, panic: false }];
    }
    Case::Cursor(CursorCase { spec, env, steps, fresh_each: false, v1: false, sparse_hole: None })
}

pub fn check_c16(case: &Case, st: &mut Stats) -> Verdict {
    let Case::Cursor(c) = case else { return viol("C16", "harness", "wrong case kind".into()) };
    let mut opts = RunOpts::default();
    opts.keep_io = true;
    opts.continue_after_err = !c.env.faults.is_empty();
    let r = run_case(case, &c.env, &opts);
    st.absorb_env(&r);
    if let Some(e) = &r.setup_err {
        return viol("C16", "setup", e.clone());
    }
    let fired = r.env.fired();
    if !fired.is_empty() {
        st.c.inc("fired.transient_source_fault_inside_history");
    }
    let file = &r.files[0];
    let d = match decode::decode(file, None) {
        Ok(d) => d,
        Err(e) => return viol("C16", "decoder-rejects", e),
    };
    let levels = d.levels as u64;
    let bound = 2 * (levels + 2);
    let flen = file.len() as u64;
    let tl = d.trailer_len as u64;
    for (i, rec) in r.recs.iter().enumerate() {
        let injected = rec.res.is_err() && fired.iter().any(|f| rec.clock_before < f.k && f.k <= rec.clock_after);
        if rec.res.is_panic() || (rec.res.is_err() && !injected) {
            return viol("C16", &format!("err.{}", rec.op), format!("call #{} {} -> {}", i, rec.op, rec.res.short()));
        }
        if injected && i < 2 {
            return None; // the open failed: nothing to measure
        }
        let evs = &r.io[i];
        match rec.op.as_str() {
            "Reader::new" => {
                for e in evs {
                    if e.kind == IoKind::Read && e.out > 0 {
                        if e.off < flen - tl || e.off + e.out as u64 > flen {
                            return viol(
                                "C16",
                                "open-reads-outside-trailer",
                                format!("Reader::new read [{}, {}) outside the {}-byte trailer of a {}-byte file", e.off, e.off + e.out as u64, tl, flen),
                            );
                        }
                    }
                }
                st.c.max("max.io_calls_in_open", evs.len() as u64);
            }
            "Reader::into_cursor" | "current" | "reset" | "clone" => {
                if evs.iter().any(|e| matches!(e.kind, IoKind::Read | IoKind::Seek)) {
                    return viol("C16", &format!("io-in.{}", rec.op), format!("{} performed I/O", rec.op));
                }
            }
            _ => {
                // A block load = a maximal run of consecutive reads inside one block's extent. Seeks
                // are free (the statement bounds loaded blocks, not positioning calls); a read that is
                // not inside a single block (it spans blocks or hits a gap) is a scan.
                let mut loads = 0u64;
                let mut cur_block: Option<u64> = None;
                for e in evs {
                    match e.kind {
                        IoKind::Seek => {
                            // a new positioning call ends the current run even if it targets the same block again
                            cur_block = None;
                        }
                        IoKind::Read => {
                            if e.out <= 0 {
                                continue;
                            }
                            let (s0, e0) = (e.off, e.off + e.out as u64);
                            if s0 >= flen - tl {
                                continue; // trailer bytes: not a block
                            }
                            let idx = match d.blocks.binary_search_by(|b| {
                                if b.end() <= s0 {
                                    std::cmp::Ordering::Less
                                } else if b.off > s0 {
                                    std::cmp::Ordering::Greater
                                } else {
                                    std::cmp::Ordering::Equal
                                }
                            }) {
                                Ok(i) => i,
                                Err(_) => {
                                    return viol("C16", "read-outside-block", format!("call #{} {} read [{}, {}) which is inside no block", i, rec.op, s0, e0))
                                }
                            };
                            let b = &d.blocks[idx];
                            if e0 > b.end() {
                                return viol(
                                    "C16",
                                    "read-outside-block",
                                    format!("call #{} {} read [{}, {}) across the end of the block [{}, {})", i, rec.op, s0, e0, b.off, b.end()),
                                );
                            }
                            if cur_block != Some(b.off) {
                                loads += 1;
                                cur_block = Some(b.off);
                            }
                        }
                        _ => {}
                    }
                }
                if loads > bound {
                    return viol(
                        "C16",
                        "too-many-loads",
                        format!("call #{} {} loaded {} blocks; bound is 2*(levels {} + 2) = {} (file of {} entries)", i, rec.op, loads, levels, bound, d.count),
                    );
                }
                st.c.max(&format!("max.loads_x1000_over_bound.{}", rec.op), loads * 1000 / bound);
                st.c.add("block_loads", loads);
                let bucket = match d.count {
                    0..=99 => "lt100",
                    100..=9999 => "lt10k",
                    _ => "ge10k",
                };
                st.c.max(&format!("max.loads_at_levels{}_entries_{}", levels.min(5), bucket), loads);
            }
        }
    }
    let h = fnv1a(file) ^ crate::run::transcript_digest(&r.recs);
    st.distinct.insert(h);
    if d.blocks.len() >= 4 && c.steps.len() >= 3 {
        st.nontrivial.insert(h);
    }
    st.c.max("max.entries_in_file", d.count);
    st.c.max("max.blocks_in_file", d.blocks.len() as u64);
    let _ = EnvPlan::whole();
    None
}
