//! Environment properties: C11 (I/O splitting / interruption), C12 (component failures),
//! C17 (memory safety under the allocator seam).

use crate::case::*;
use crate::decode;
use crate::env::{EnvPlan, FaultSpec, FiredFault, IoKind, IoMode, Role};
use crate::exec::{Rec, Res};
use crate::gen::{self, Tier};
use crate::props_file::Verdict;
use crate::rng::{fnv1a, mix, Rng};
use crate::run::{case_env, run_case, with_env, RunOpts, RunResult, Stats};

fn viol(p: &str, oracle: &str, msg: String) -> Verdict {
    Some((Violation::new(p, oracle, msg), None))
}

/// A scenario of any kind, kept small (tens to hundreds of I/O calls).
pub fn gen_any_small(rng: &mut Rng, tier: Tier, small: bool) -> Case {
    let kind = rng.weighted(&[25, 20, 15, 15, 25]);
    let shrink_spec = |rng: &mut Rng, spec: &mut FileSpec, cap: usize| {
        if let Entries::Literal(e) = &mut spec.entries {
            if e.len() > cap {
                let keep = rng.urange(0, cap);
                e.truncate(keep);
            }
        }
        spec.knobs.ctor = 0;
        if small {
            if let Entries::Literal(e) = &mut spec.entries {
                for (k, v) in e.iter_mut() {
                    if v.0.len() > 300 {
                        v.0.truncate(300);
                    }
                    if k.0.len() > 1200 {
                        k.0.truncate(1200);
                    }
                }
                e.dedup_by(|a, b| a.0 == b.0);
            }
        }
        if spec.knobs.levels > 4 {
            spec.knobs.levels = 4;
        }
        if spec.knobs.codec == 4 && spec.knobs.level > 9 {
            spec.knobs.level = 3;
        }
    };
    let cap = if small { 40 } else { 400 };
    match kind {
        0 => {
            let mut spec = if rng.chance(1, 3) { gen::gen_layered_spec(rng, Tier::Quick) } else { gen::gen_file_spec(rng, Tier::Quick, false) };
            shrink_spec(rng, &mut spec, cap);
            if rng.chance(1, 6) {
                spec.knobs.ctor = 0;
                spec.knobs.fin = 1;
            }
            Case::File(FileCase { spec, env: EnvPlan::whole(), v1: false, big: None })
        }
        1 => {
            let mut spec = if rng.chance(1, 2) { gen::gen_layered_spec(rng, Tier::Quick) } else { gen::gen_file_spec(rng, Tier::Quick, false) };
            shrink_spec(rng, &mut spec, cap);
            let keys: Vec<Vec<u8>> = spec.entries.materialize().into_iter().map(|(k, _)| k).collect();
            let mut steps = crate::props_cursor::gen_history(rng, &keys, if small { 12 } else { 50 }, 4);
            if small {
                for st in steps.iter_mut() {
                    match &mut st.op {
                        Op::NextN(k) | Op::PrevN(k) => *k = (*k).min(6),
                        _ => {}
                    }
                }
            }
            Case::Cursor(CursorCase { spec, env: EnvPlan::whole(), steps, fresh_each: false, v1: false, sparse_hole: None })
        }
        2 => {
            let mut spec = if rng.chance(1, 2) { gen::gen_layered_spec(rng, Tier::Quick) } else { gen::gen_file_spec(rng, Tier::Quick, false) };
            shrink_spec(rng, &mut spec, cap);
            let keys: Vec<Vec<u8>> = spec.entries.materialize().into_iter().map(|(k, _)| k).collect();
            let qkind = if rng.chance(1, 2) { 1 } else { 2 };
            let queries = crate::props_iter::gen_queries(rng, &keys, if small { 4 } else { 12 }, qkind);
            Case::Iter(IterCase { spec, env: EnvPlan::whole(), queries, v1: false, interleave: false })
        }
        3 => {
            let mut m = crate::props_merge::gen_merge_case(rng, Tier::Quick);
            for s in m.sources.iter_mut() {
                shrink_spec(rng, s, cap / 2);
            }
            if m.out_knobs.codec == 4 && m.out_knobs.level > 9 {
                m.out_knobs.level = 3;
            }
            m.env = EnvPlan::whole();
            Case::Merge(m)
        }
        _ => {
            let mut s = crate::props_sort::gen_sort_case(rng, tier);
            if let Entries::Literal(e) = &mut s.inserts {
                let c = if small { 40 } else { 300 };
                if e.len() > c {
                    e.truncate(c);
                }
                for (_, v) in e.iter_mut() {
                    if v.0.len() > 3000 {
                        v.0.truncate(6 + 200);
                        let l = v.0.len() as u16;
                        v.0[..2].copy_from_slice(&l.to_be_bytes());
                    }
                }
            }
            s.knobs.creator = 0;
            s.alt_knobs.clear();
            if s.consume == 3 {
                s.consume = 2;
            }
            if s.knobs.chunk_codec == Some(4) {
                s.knobs.chunk_level = Some(1);
            }
            if s.out_knobs.codec == 4 && s.out_knobs.level > 9 {
                s.out_knobs.level = 3;
            }
            s.env = EnvPlan::whole();
            Case::Sort(s)
        }
    }
}

// ------------------------------------------------------------------------------------- C11

pub fn gen_c11(rng: &mut Rng, tier: Tier) -> Case {
    if rng.chance(1, 120) {
        // one block of several MiB (an entry larger than any read window a reader may use)
        let big = rng.urange(4 << 20, 6 << 20) + rng.urange(0, 9);
        let mut ents = Vec::new();
        let n = rng.urange(1, 6);
        let at = rng.usize_below(n);
        for i in 0..n {
            let vl = if i == at { big } else { rng.urange(0, 40) };
            ents.push((B(vec![b'k', i as u8]), B(vec![(i * 37) as u8; vl])));
        }
        let knobs = Knobs { codec: *rng.pick(&[0u8, 0, 5, 3]), level: 0, block_size: None, interval: None, levels: *rng.pick(&[0u8, 1]), ctor: 0, fin: 0 };
        let spec = FileSpec { knobs, entries: Entries::Literal(ents) };
        let env = gen::gen_env(rng, false);
        return if rng.chance(1, 2) {
            Case::File(FileCase { spec, env, v1: false, big: None })
        } else {
            let steps = vec![
                CursorStep { cur: 0, op: Op::First },
                CursorStep { cur: 0, op: Op::NextN(n as u32) },
                CursorStep { cur: 0, op: Op::Last },
                CursorStep { cur: 0, op: Op::PrevN(n as u32) },
                CursorStep { cur: 0, op: Op::Ge(B(vec![b'k', at as u8])) },
            ];
            Case::Cursor(CursorCase { spec, env, steps, fresh_each: false, v1: false, sparse_hole: None })
        };
    }
    if rng.chance(1, 60) {
        // one block of 70-300 KiB that does not compress (larger than any staging buffer a codec
        // reader may use, small enough for byte-wise schedules)
        let big = rng.urange(70 << 10, 300 << 10);
        let n = rng.urange(1, 5);
        let at = rng.usize_below(n);
        let mut ents = Vec::new();
        for i in 0..n {
            let small = rng.urange(0, 30);
            let v = if i == at { rng.bytes(big) } else { rng.bytes(small) };
            ents.push((B(vec![b'm', i as u8]), B(v)));
        }
        let knobs = Knobs { codec: *rng.pick(&[4u8, 4, 4, 2, 3, 5, 1]), level: 1, block_size: None, interval: None, levels: *rng.pick(&[0u8, 1]), ctor: 0, fin: 0 };
        let spec = FileSpec { knobs, entries: Entries::Literal(ents) };
        let steps = vec![
            CursorStep { cur: 0, op: Op::First },
            CursorStep { cur: 0, op: Op::NextN(n as u32) },
            CursorStep { cur: 0, op: Op::Ge(B(vec![b'm', at as u8])) },
        ];
        return Case::Cursor(CursorCase { spec, env: gen::gen_env(rng, false), steps, fresh_each: false, v1: false, sparse_hole: None });
    }
    if rng.chance(1, 40) {
        // power-of-two landers: the first block (8-byte length + body, codec none) ends exactly on a
        // multiple of 4 KiB..128 KiB of the emitted stream, where a staging buffer of that size inside
        // the library would be exactly full; through a Writer's sink or through a sorter's chunk
        let t = *rng.pick(&[4096usize, 8192, 16384, 32768, 65536, 65536, 131072]);
        // 8 + (1 + vl + 1 + v) + 12 == t
        let mut v = t - 22 - 2;
        if v >= 16_384 {
            v = t - 22 - 3;
        }
        let v = (v as i64 + *rng.pick(&[0i64, 0, 0, -1, 1])) as usize;
        let mut ents = vec![(B(vec![b'a']), B(vec![0x5A; v]))];
        for i in 0..rng.urange(0, 3) {
            ents.push((B(vec![b'b' + i as u8]), B(vec![i as u8; rng.urange(0, 40)])));
        }
        let env = gen::gen_env(rng, false);
        return if rng.chance(1, 2) {
            let knobs = Knobs { codec: 0, level: 0, block_size: *rng.pick(&[None, Some(1024)]), interval: None, levels: *rng.pick(&[0u8, 1, 2]), ctor: 0, fin: 0 };
            Case::File(FileCase { spec: FileSpec { knobs, entries: Entries::Literal(ents) }, env, v1: false, big: None })
        } else {
            let mut s = crate::props_sort::gen_sort_case(rng, tier);
            s.inserts = Entries::Literal(ents);
            s.alt_knobs.clear();
            s.knobs.raw_threshold = Some(1 << 20);
            s.knobs.allow_realloc = true;
            s.knobs.init_cap = Some(4096);
            s.knobs.chunk_codec = Some(0);
            s.knobs.parallel = false;
            s.knobs.creator = 0;
            if s.consume == 3 {
                s.consume = 2;
            }
            s.env = env;
            Case::Sort(s)
        };
    }
    let c = gen_any_small(rng, tier, false);
    let env = gen::gen_env(rng, false);
    with_env(&c, env)
}

fn diff_transcripts(a: &[Rec], b: &[Rec]) -> Option<(usize, String)> {
    for (i, (x, y)) in a.iter().zip(b.iter()).enumerate() {
        if x.op != y.op || x.res != y.res {
            return Some((i, format!("call #{}: reference {} -> {}, under this schedule {} -> {}", i, x.op, x.res.short(), y.op, y.res.short())));
        }
    }
    if a.len() != b.len() {
        return Some((a.len().min(b.len()), format!("transcript lengths differ: reference {} calls, under this schedule {}", a.len(), b.len())));
    }
    None
}

fn classify_splits(st: &mut Stats, r: &RunResult, ref_bytes: Option<&Vec<u8>>) {
    // read side: short read of an 8-byte length prefix; interrupted before the first byte of a block
    for evs in &r.io {
        let mut prev_seek = false;
        for e in evs {
            match e.kind {
                IoKind::Seek => prev_seek = true,
                IoKind::Read => {
                    if e.req == 8 && e.out > 0 && e.out < 8 {
                        st.c.inc("split.short_read_inside_length_prefix");
                    }
                    if e.out == -1 && prev_seek {
                        st.c.inc("split.eintr_before_first_byte_of_block");
                    } else if e.out == -1 {
                        st.c.inc("split.eintr_inside_block_body_or_codec_frame");
                    }
                    if e.out > 0 && (e.out as u64) < e.req && e.req <= 22 && e.req != 8 {
                        st.c.inc("split.short_read_inside_trailer_or_header_field");
                    }
                    prev_seek = false;
                }
                _ => {}
            }
        }
    }
    let Some(bytes) = ref_bytes else { return };
    let Ok(d) = decode::decode(bytes, None) else { return };
    let body_end = (bytes.len() - d.trailer_len) as u64;
    for evs in &r.io {
        for e in evs {
            if e.kind != IoKind::Write || e.out <= 0 || (e.out as u64) >= e.req {
                continue;
            }
            let at = e.off + e.out as u64; // split point
            if at >= body_end {
                let rel = at - body_end;
                st.c.inc(match rel {
                    0..=7 => "split.write_inside_trailer_root_offset",
                    8 => "split.write_at_trailer_codec",
                    9..=16 => "split.write_inside_trailer_count",
                    17 => "split.write_at_trailer_levels",
                    _ => "split.write_inside_magic",
                });
            } else if let Some(b) = d.blocks.iter().find(|b| at > b.off && at < b.end()) {
                if at < b.off + 8 {
                    st.c.inc("split.write_inside_block_length_prefix");
                } else if at == b.off + 8 {
                    st.c.inc("split.write_between_length_prefix_and_body");
                } else {
                    st.c.inc("split.write_inside_block_body");
                }
            } else {
                st.c.inc("split.write_at_block_boundary");
            }
        }
    }
}

pub fn check_c11(case: &Case, st: &mut Stats) -> Verdict {
    let plan = case_env(case).clone();
    let whole = EnvPlan::whole();
    let opts = RunOpts::default();
    let reference = run_case(case, &whole, &opts);
    st.absorb_env(&reference);
    if let Some(e) = &reference.setup_err {
        return viol("C11", "setup", e.clone());
    }
    if let Some((i, r)) = reference.recs.iter().enumerate().find(|(_, r)| r.res.is_err() || r.res.is_panic()) {
        return viol("C11", &format!("reference-failed.{}", r.op), format!("with whole-buffer I/O and no fault, call #{} {} -> {}", i, r.op, r.res.short()));
    }
    let again = run_case(case, &whole, &opts);
    if let Some((_, m)) = diff_transcripts(&reference.recs, &again.recs) {
        return viol("C11", "repeat-run-differs", format!("two identical runs differ: {}", m));
    }
    let ref_bytes = reference.recs.iter().find_map(|r| match (&r.op[..], &r.res) {
        ("sink.bytes", Res::Bytes(b)) => Some(b.clone()),
        _ => None,
    });
    // multi-megabyte entries: same schedule kinds, scaled transfer sizes (one call per byte would
    // cost millions of simulated calls per run)
    let huge = reference.recs.iter().any(|r| matches!(&r.res, Res::Bytes(b) if b.len() >= (1 << 20)))
        || reference.files.iter().any(|f| f.len() >= (1 << 20))
        || reference.recs.len() > 200_000;
    let scale = if huge { 1usize << 14 } else { 1 };
    let plan_shared = plan.shared_pos;
    let variants: Vec<(&str, EnvPlan)> = vec![
        ("chop1", EnvPlan { modes: vec![IoMode::Chop { max: scale }], stream: plan.stream, faults: vec![], crash: None, buffered: !plan.buffered, shared_pos: plan_shared, src_start: 0 }),
        ("as-generated", plan.clone()),
        (
            "chop-intr",
            EnvPlan {
                modes: vec![IoMode::ChopIntr { max: scale * (1 + (plan.stream % 7) as usize), den: 2 + (plan.stream % 3) as u32 }],
                stream: mix(plan.stream, 77),
                faults: vec![],
                crash: None,
                buffered: plan.stream % 2 == 0, shared_pos: plan_shared, src_start: plan.src_start,
            },
        ),
    ];
    let mut variants = variants;
    variants.push((
        "intr-storm",
        EnvPlan {
            modes: vec![IoMode::ChopBurst { max: scale * 4096, den: 3 + (plan.stream % 5) as u32, burst: 17 + (plan.stream % 23) as u32 }],
            stream: mix(plan.stream, 99),
            faults: vec![],
            crash: None,
            buffered: plan.stream % 3 == 0, shared_pos: plan_shared, src_start: plan.src_start,
        },
    ));
    let mut io_opts = RunOpts::default();
    io_opts.keep_io = true;
    for (name, p) in &variants {
        let r = run_case(case, p, &io_opts);
        st.absorb_env(&r);
        st.evaluations += 1;
        classify_splits(st, &r, ref_bytes.as_ref());
        if let Some((i, m)) = diff_transcripts(&reference.recs, &r.recs) {
            let op = r.recs.get(i).map(|x| x.op.clone()).unwrap_or_default();
            let kind = match r.recs.get(i).map(|x| &x.res) {
                Some(Res::Err(_)) => "err-under-schedule",
                Some(Res::Panic(_)) => "panic-under-schedule",
                Some(Res::Bytes(_)) => "emitted-bytes-differ",
                _ => "result-differs",
            };
            let mut why = String::new();
            if let (Some(Res::Bytes(a)), Some(Res::Bytes(b))) = (reference.recs.get(i).map(|x| &x.res), r.recs.get(i).map(|x| &x.res)) {
                let pos = a.iter().zip(b.iter()).position(|(x, y)| x != y).unwrap_or(a.len().min(b.len()));
                why = format!(" (first differing byte at offset {}, lengths {} vs {})", pos, a.len(), b.len());
            }
            return viol("C11", &format!("{}.{}", kind, op), format!("schedule '{}': {}{}", name, m, why));
        }
    }
    let h = crate::run::transcript_digest(&reference.recs);
    st.distinct.insert(h);
    if reference.recs.len() > 6 {
        st.nontrivial.insert(h);
    }
    st.c.inc(match case {
        Case::File(_) => "scenario.file",
        Case::Cursor(_) => "scenario.cursor",
        Case::Iter(_) => "scenario.iter",
        Case::Merge(_) => "scenario.merge",
        Case::Sort(_) => "scenario.sort",
        Case::Open(_) => "scenario.open",
    });
    match case {
        Case::File(c) => st.c.inc(&format!("codec.{}", c.spec.knobs.codec)),
        Case::Cursor(c) => st.c.inc(&format!("codec.{}", c.spec.knobs.codec)),
        Case::Iter(c) => st.c.inc(&format!("codec.{}", c.spec.knobs.codec)),
        _ => {}
    }
    None
}

// ------------------------------------------------------------------------------------- C12

pub fn gen_c12(rng: &mut Rng, tier: Tier) -> Case {
    let c = gen_any_small(rng, tier, true);
    // benign schedules here only with large transfers: one-byte transfers multiply the number
    // of fault points per scenario by the file size without adding call sites
    let env = match rng.below(4) {
        0 => EnvPlan::whole(),
        1 => EnvPlan { buffered: true, ..EnvPlan::whole() },
        2 => EnvPlan { modes: vec![IoMode::Chop { max: *rng.pick(&[64usize, 4096]) }, IoMode::Whole], stream: rng.next_u64(), faults: vec![], crash: None, buffered: rng.chance(1, 2), shared_pos: false, src_start: 0 },
        _ => EnvPlan { modes: vec![IoMode::ChopIntr { max: *rng.pick(&[64usize, 4096]), den: 16 }], stream: rng.next_u64(), faults: vec![], crash: None, buffered: rng.chance(1, 2), shared_pos: false, src_start: 0 },
    };
    with_env(&c, env)
}

fn judge_fault(recs: &[Rec], fired: &[FiredFault], st: &mut Stats) -> Option<(String, String)> {
    // a call that returned normally although a component failed inside it is reported as such
    // even when a later call panics on what that left behind
    let swallowed = fired.first().and_then(|f| recs.iter().position(|r| r.clock_before < f.k && f.k <= r.clock_after)).map(|i| !recs[i].res.is_err() && !recs[i].res.is_panic()).unwrap_or(false);
    // no panic anywhere, including drops
    if let Some((i, r)) = recs.iter().enumerate().find(|(_, r)| r.res.is_panic()).filter(|_| !swallowed) {
        let f = fired.first();
        return Some((
            format!("panic-on-fault.{}.{}", r.op, f.map(|f| f.kind.name()).unwrap_or("none")),
            format!(
                "call #{} {} panicked after component failure {:?}: {}",
                i,
                r.op,
                f.map(|f| (f.kind.name(), f.io_err, f.create_variant)),
                r.res.short()
            ),
        ));
    }
    let Some(f) = fired.first() else { return None };
    let idx = recs.iter().position(|r| r.clock_before < f.k && f.k <= r.clock_after);
    let Some(idx) = idx else {
        st.c.inc("fault_fired_outside_any_public_call");
        return None;
    };
    let r = &recs[idx];
    let role = match f.role {
        Some(Role::Sink) => "sink",
        Some(Role::Source) => "source",
        Some(Role::Chunk) => "chunk",
        None => "-",
    };
    st.distinct.insert(fnv1a(format!("{}|{}|{}", r.op, f.kind.name(), role).as_bytes()));
    st.c.inc(&format!("faulted_api.{}", r.op));
    match &r.res {
        Res::Err(e) => {
            let ok = match f.kind {
                // the I/O error as an I/O error: same kind, or a wrapper that still carries the original
                IoKind::Read | IoKind::Write | IoKind::Flush | IoKind::Seek => {
                    (e.class == "Io" || e.class == "io::Error") && (e.io_kind == f.io_err || e.sim_k == Some(f.k))
                }
                IoKind::Create => match f.create_variant {
                    0 | 1 => e.class == "Io" && (e.io_kind == f.io_err || e.sim_k == Some(f.k)),
                    2 => e.class == "InvalidCompressionType",
                    _ => e.class == "InvalidFormatVersion",
                },
                IoKind::Merge => e.class == "Merge" && e.merge_k == Some(f.k),
            };
            if !ok {
                return Some((
                    format!("wrong-error.{}.{}", r.op, f.kind.name()),
                    format!(
                        "{} failed during a {} on the {} with {:?}/variant {}, but {} returned Err({}, {:?}, {})",
                        f.kind.name(),
                        f.kind.name(),
                        role,
                        f.io_err,
                        f.create_variant,
                        r.op,
                        e.class,
                        e.io_kind,
                        e.text
                    ),
                ));
            }
            if matches!(f.kind, IoKind::Read | IoKind::Write | IoKind::Flush | IoKind::Seek) || (f.kind == IoKind::Create && f.create_variant < 2) {
                if e.sim_k == Some(f.k) {
                    st.c.inc("error_payload_preserved");
                } else {
                    st.c.inc("error_payload_rewrapped_kind_kept");
                }
            }
            None
        }
        other => Some((
            format!("fault-swallowed.{}.{}", r.op, f.kind.name()),
            format!(
                "a {} on the {} failed ({:?}) during call #{} {} which nevertheless returned {}",
                f.kind.name(),
                role,
                f.io_err,
                idx,
                r.op,
                other.short()
            ),
        )),
    }
}

pub fn check_c12(case: &Case, st: &mut Stats) -> Verdict {
    let plan = case_env(case).clone();
    let opts = RunOpts::default();
    let mut clean = plan.clone();
    clean.faults.clear();
    let base = run_case(case, &clean, &opts);
    st.absorb_env(&base);
    if let Some(e) = &base.setup_err {
        return viol("C12", "setup", e.clone());
    }
    if let Some((i, r)) = base.recs.iter().enumerate().find(|(_, r)| r.res.is_err() || r.res.is_panic()) {
        return Some((
            Violation::new("C12", &format!("error-without-fault.{}", r.op), format!("no component failed, yet call #{} {} -> {}", i, r.op, r.res.short())),
            Some(with_env(case, clean)),
        ));
    }
    let n = base.env.clock();
    st.c.add("fault_points_in_counting_passes", n);
    let seed = plan.stream ^ fnv1a(&n.to_le_bytes());
    let run_with = |faults: Vec<FaultSpec>, st: &mut Stats| -> Verdict {
        let mut p = clean.clone();
        p.faults = faults.clone();
        let r = run_case(case, &p, &opts);
        st.c.merge(&r.env.counters());
        st.evaluations += 1;
        let fired = r.env.fired();
        if fired.is_empty() && faults.iter().any(|f| f.k <= n) {
            return Some((
                Violation::new("C12", "harness.fault-not-fired", format!("fault at call {} of {} never fired: the workload is not deterministic", faults[0].k, n)),
                Some(with_env(case, p)),
            ));
        }
        if let Some((oracle, msg)) = judge_fault(&r.recs, &fired, st) {
            return Some((Violation::new("C12", &oracle, msg), Some(with_env(case, p))));
        }
        None
    };
    if !plan.faults.is_empty() {
        return run_with(plan.faults.clone(), st);
    }
    for k in 1..=n {
        let err = (mix(seed, k) % 40) as u8;
        // one fault point in four stays broken: every later component call fails as well
        let sticky = mix(seed, k ^ 0x5717) % 4 == 0;
        if sticky {
            st.c.inc("sticky_fault_runs");
        }
        if let Some(v) = run_with(vec![FaultSpec { k, err, sticky, merge_nth: 0, panic: false }], st) {
            return Some(v);
        }
    }
    // end-of-file is the error kind that decoders and `read_exact`-style loops interpret rather than
    // pass on: one scenario in four (and every scenario with multi-megabyte blocks) is enumerated a
    // second time with UnexpectedEof at every component call
    let huge = match case {
        Case::Cursor(c) => matches!(c.spec.entries, Entries::Noise { vlen, .. } if vlen >= (1 << 20)),
        _ => false,
    };
    if huge || mix(seed, 0xE0F) % 4 == 0 {
        st.c.inc("scenarios_enumerated_again_with_unexpected_eof");
        for k in 1..=n {
            if let Some(v) = run_with(vec![FaultSpec { k, err: 6, sticky: false, merge_nth: 0, panic: false }], st) {
                return Some(v);
            }
        }
    }
    // second family: two faults per run
    let mut rng = Rng::new(seed);
    if n >= 2 {
        for _ in 0..(n / 8).clamp(1, 12) {
            let k1 = rng.range(1, n);
            let k2 = rng.range(1, n);
            let (a, b) = (k1.min(k2), k1.max(k2));
            if a == b {
                continue;
            }
            let faults = vec![FaultSpec { k: a, err: rng.below(40) as u8, sticky: false, merge_nth: 0, panic: false }, FaultSpec { k: b, err: rng.below(40) as u8, sticky: false, merge_nth: 0, panic: false }];
            st.c.inc("double_fault_runs");
            if let Some(v) = run_with(faults, st) {
                return Some(v);
            }
        }
    }
    let h = crate::run::transcript_digest(&base.recs);
    if n >= 5 {
        st.nontrivial.insert(h);
    }
    None
}

// ------------------------------------------------------------------------------------- C17

pub fn gen_c17(rng: &mut Rng, tier: Tier) -> Case {
    if rng.chance(7, 10) {
        // sorter with insert-size sequences built to hit doubling, exact fit, oversize entries
        let mut s = crate::props_sort::gen_sort_case(rng, tier);
        s.alt_knobs.clear();
        s.knobs.creator = 0;
        let thr = s.knobs.raw_threshold.unwrap_or(1024);
        if rng.chance(1, 2) {
            let cap0 = s.knobs.init_cap.unwrap_or(thr).max(16);
            let mut ins = Vec::new();
            let n = rng.urange(1, if tier == Tier::Quick { 120 } else { 600 });
            let mut used = 0usize;
            let mut cap = (cap0 + 15) / 16 * 16;
            for i in 0..n {
                let klen = rng.urange(0, 6);
                let key: Vec<u8> = (0..klen).map(|_| *rng.pick(&gen::ALPHA)).collect();
                let remaining = cap.saturating_sub(used);
                let vlen = match rng.below(6) {
                    0 => remaining.saturating_sub(16 + klen),          // exact fit
                    1 => remaining.saturating_sub(16 + klen) + 1,      // one byte too many
                    2 => remaining.saturating_sub(klen),               // bytes fit, no bound slot
                    3 => cap * 2 + rng.urange(0, 40),                  // larger than the whole buffer
                    4 => 0,
                    _ => rng.urange(0, 48),
                }
                .min(6_000);
                used += 16 + klen + vlen;
                while used > cap && cap < (1 << 22) {
                    cap *= 2;
                }
                if used > cap || rng.chance(1, 10) {
                    used = 0;
                }
                ins.push((B(key), B(vec![(i % 251) as u8; vlen])));
            }
            s.inserts = Entries::Literal(ins);
            s.mf = crate::env::MergeKind::Concat;
        }
        // the I/O schedule is irrelevant to the allocator seam; byte-wise transfers of large values
        // would only slow these runs down
        if !rng.chance(1, 6) {
            s.env = EnvPlan::whole();
        }
        Case::Sort(s)
    } else if rng.chance(1, 6) {
        crate::props_cursor::gen_clone_alias(rng, tier)
    } else {
        let mut c = gen_any_small(rng, tier, false);
        let mut env = gen::gen_env(rng, true);
        if let Case::Sort(s) = &mut c {
            s.knobs.creator = 0;
        }
        // one scenario in three: a component (source, sink, chunk creator, merge function) fails
        // once or twice and the caller keeps using the object; whatever the calls then return,
        // they must stay memory-safe
        if rng.chance(1, 3) {
            for _ in 0..rng.urange(1, 2) {
                env.faults.push(crate::env::FaultSpec { k: rng.log_uniform(1, 400), err: rng.below(40) as u8, sticky: false, merge_nth: 0, panic: false });
            }
            env.faults.sort_by_key(|f| f.k);
            env.faults.dedup_by_key(|f| f.k);
            // one such scenario in three: the component does not fail, it panics; the objects are
            // then dropped by the unwinding caller
            if rng.chance(1, 3) {
                env.faults.truncate(1);
                env.faults[0].panic = true;
            }
        }
        // and one merge in four that keeps iterating after its merge function failed once
        if let Case::Merge(m) = &mut c {
            if rng.chance(1, 4) {
                m.out_mode = 0;
                env.faults = vec![crate::env::FaultSpec { k: 0, err: 0, sticky: false, merge_nth: rng.log_uniform(1, 40) as u32, panic: rng.chance(1, 4) }];
            }
        }
        with_env(&c, env)
    }
}

fn overflow_panic(recs: &[Rec]) -> Option<(usize, &Rec)> {
    recs.iter().enumerate().find(|(_, r)| match &r.res {
        Res::Panic(m) => m.contains("overflow") || m.contains("out of range") || m.contains("misaligned"),
        _ => false,
    })
}

pub fn check_c17(case: &Case, st: &mut Stats) -> Verdict {
    let plan = case_env(case).clone();
    let parallel = matches!(case, Case::Sort(s) if s.knobs.parallel);
    let _ = crate::alloc::take_error();
    let run_once = |st: &mut Stats, null_at: usize| -> (Option<(String, String)>, i64, bool) {
        let live0 = crate::alloc::thread_live() as i64;
        crate::exec::NULL_AT.store(null_at, std::sync::atomic::Ordering::SeqCst);
        let nulls0 = crate::alloc::NULLS_RETURNED.load(std::sync::atomic::Ordering::SeqCst);
        let mut opts = RunOpts::default();
        opts.lean = matches!(case, Case::Sort(s) if s.inserts.len() > 50_000);
        let faulty = !plan.faults.is_empty();
        opts.continue_after_err = faulty;
        opts.record_merge = matches!(case, Case::Merge(_));
        let r = run_case(case, &plan, &opts);
        crate::exec::NULL_AT.store(usize::MAX, std::sync::atomic::Ordering::SeqCst);
        crate::alloc::disarm();
        let null_fired = crate::alloc::NULLS_RETURNED.load(std::sync::atomic::Ordering::SeqCst) > nulls0;
        st.absorb_env(&r);
        if let Case::Sort(s) = case {
            crate::props_sort::absorb_sort_reach(st, &r, &s.knobs);
        }
        let mut bad = None;
        if let Some((i, rec)) = overflow_panic(&r.recs) {
            bad = Some(("arith-overflow".to_string(), format!("call #{} {} -> {}", i, rec.op, rec.res.short())));
        } else if let Some((i, rec)) = r.recs.iter().enumerate().find(|(_, r)| r.res.is_panic()) {
            let documented = matches!(&rec.res, Res::Panic(m) if m.contains("unable to allocate"));
            if null_fired && documented {
                st.c.inc("fired.null_allocation_documented_panic");
            } else if matches!(&rec.res, Res::Panic(m) if m.contains("SIM-COMPONENT-PANIC")) {
                st.c.inc("component_panic_unwound_through_the_library");
            } else if faulty && !r.env.fired().is_empty() {
                // what a call returns (or whether it panics) once the caller went on after a failed
                // component is not this property's business; only memory safety and size arithmetic are
                st.c.inc("post_fault_panic_not_judged");
            } else {
                bad = Some((format!("panic.{}", rec.op), format!("call #{} {} -> {}", i, rec.op, rec.res.short())));
            }
        } else if null_fired {
            bad = Some(("null-alloc-ignored".to_string(), "the allocator returned null for the sorter buffer but no panic was raised".to_string()));
        }
        if faulty && !r.env.fired().is_empty() {
            st.c.inc("runs_continued_after_a_failed_component");
        }
        // freed memory is filled with 0xDD: a value handed to the merge function that is all 0xDD
        // and is not a value any source stores under that key was read through a dangling slice
        if let Case::Merge(m) = case {
            let sources: Vec<Vec<(Vec<u8>, Vec<u8>)>> = m.sources.iter().map(|s| s.entries.materialize()).collect();
            let union = crate::model::merge_union(&sources);
            for (k, vals) in r.env.0.borrow().merge_calls.iter() {
                for v in vals {
                    if v.len() >= 4 && v.iter().all(|b| *b == 0xDD) && !union.get(k).map(|u| u.contains(v)).unwrap_or(false) {
                        bad = Some(("use-after-free".to_string(), format!("the merge function was handed a {}-byte value made of the allocator's poison byte for key {:02x?}: it was read through a slice into freed memory", v.len(), k)));
                    }
                }
            }
            st.c.add("merge_calls_inspected_for_poison", r.env.0.borrow().merge_calls.len() as u64);
            if let Some(f) = r.env.fired().iter().find(|f| f.kind == IoKind::Merge) {
                let after = r.recs.iter().filter(|x| x.op == "MergerIter::next" && x.clock_before >= f.k).count();
                if after > 0 {
                    st.c.inc("probe.next_called_after_the_merge_function_failed");
                }
            }
        }
        // the same evidence on the read path: a key or value handed back by a cursor or an iterator
        // that holds a run of 8 poison bytes although nothing stored in the file does
        let stored: Option<Vec<(Vec<u8>, Vec<u8>)>> = match case {
            Case::Cursor(c) if c.spec.entries.len() <= 5000 => Some(c.spec.entries.materialize()),
            Case::Iter(c) if c.spec.entries.len() <= 5000 => Some(c.spec.entries.materialize()),
            Case::File(c) if c.spec.entries.len() <= 5000 && c.big.is_none() => Some(c.spec.entries.materialize()),
            // merged outputs are built from several stored values: here nothing stored may hold even two
            // consecutive poison bytes (a run could otherwise be assembled across a value boundary)
            Case::Merge(m) if m.sources.iter().map(|s| s.entries.len()).sum::<usize>() <= 5000 => Some(m.sources.iter().flat_map(|s| s.entries.materialize()).collect()),
            Case::Sort(s) if s.inserts.len() <= 5000 => Some(s.inserts.materialize()),
            _ => None,
        };
        if let Some(stored) = stored {
            let merged = matches!(case, Case::Merge(_) | Case::Sort(_));
            let has_run = |b: &[u8]| b.windows(8).any(|w| w.iter().all(|x| *x == 0xDD));
            let has_pair = |b: &[u8]| b.windows(2).any(|w| w[0] == 0xDD && w[1] == 0xDD) || (b.len() == 1 && b[0] == 0xDD);
            let clean = if merged { !stored.iter().any(|(k, v)| has_pair(k) || has_pair(v)) } else { !stored.iter().any(|(k, v)| has_run(k) || has_run(v)) };
            if clean {
                for (i, rec) in r.recs.iter().enumerate() {
                    if let Res::Entry(k, v) = &rec.res {
                        if has_run(k) || has_run(v) {
                            bad = Some(("use-after-free".to_string(), format!("call #{} {} handed back bytes made of the allocator's poison byte (key {}B, value {}B): they were read through a slice into freed memory", i, rec.op, k.len(), v.len())));
                            break;
                        }
                    }
                }
                st.c.inc("read_path_results_inspected_for_poison");
            }
        }
        let setup = r.setup_err.clone();
        drop(r);
        if let Some(e) = setup {
            bad = Some(("setup".into(), e));
        }
        if let Some(e) = crate::alloc::take_error() {
            bad = Some(("alloc-misuse".to_string(), e));
        }
        #[cfg(feature = "asan")]
        {
            extern "C" {
                fn __lsan_do_recoverable_leak_check() -> i32;
            }
            if bad.is_none() && unsafe { __lsan_do_recoverable_leak_check() } != 0 {
                bad = Some(("lsan-leak".to_string(), "LeakSanitizer reports memory that is no longer reachable after the run".to_string()));
            }
        }
        let live1 = crate::alloc::thread_live() as i64;
        (bad, live1 - live0, null_fired)
    };
    let n_ins = match case {
        Case::Sort(s) => s.inserts.len(),
        _ => 0,
    };
    let null_at = if n_ins > 0 && crate::alloc::enabled() && plan.stream % 5 == 0 && !parallel { (plan.stream >> 8) as usize % n_ins } else { usize::MAX };
    let (bad, leaked, _nf) = run_once(st, null_at);
    if let Some((o, m)) = bad {
        return viol("C17", &o, m);
    }
    if crate::alloc::enabled() && !parallel {
        // The leak verdict is taken on a second execution of the same case: first-use lazy
        // initialisations (codec tables, thread-locals) do not repeat, a leaked buffer does. Always
        // running twice keeps the run's event log independent of what the process did before.
        let (_b2, leaked2, _) = run_once(st, null_at);
        if leaked2 > 0 {
            return viol("C17", "leak", format!("{} bytes stay allocated after every object of the run was dropped ({} on the first execution)", leaked2, leaked));
        }
        st.c.inc("leak_checks");
    }
    if crate::alloc::enabled() {
        st.c.inc("runs_under_VerifAlloc");
    }
    let h = fnv1a(format!("{:?}", crate::run::summarize_case(case)).as_bytes());
    st.distinct.insert(h);
    if n_ins >= 2 || !matches!(case, Case::Sort(_)) {
        st.nontrivial.insert(h);
    }
    None
}

// ------------------------------------------------------------------------------------- tiny (interpreter-sized)

/// Scenarios small enough for an interpreter: generated with short loops only.
pub fn gen_tiny(rng: &mut Rng) -> Case {
    let env = if rng.chance(1, 2) {
        EnvPlan::whole()
    } else {
        EnvPlan { modes: vec![IoMode::Chop { max: 64 }], stream: rng.next_u64(), faults: vec![], crash: None, buffered: rng.chance(1, 2), shared_pos: false, src_start: 0 }
    };
    // codecs are interpreted byte by byte under Miri (64 KiB hash tables per block): mostly None
    let codec = *rng.pick(&[0u8, 0, 0, 0, 0, 0, 0, 1]);
    let file = |rng: &mut Rng, n: usize| -> FileSpec {
        let levels = *rng.pick(&[0u8, 1, 2, 2]);
        let mut ents = Vec::new();
        for i in 0..n {
            let mut k = vec![0x55u8; 40];
            k.extend_from_slice(&(i as u32 * 3 + 1).to_be_bytes());
            let vl = *rng.pick(&[0usize, 5, 300, 300, 950]);
            ents.push((B(k), B(vec![i as u8; vl])));
        }
        FileSpec {
            knobs: Knobs { codec, level: 1, block_size: Some(1024), interval: *rng.pick(&[None, Some(1), Some(3)]), levels, ctor: 0, fin: 0 },
            entries: Entries::Literal(ents),
        }
    };
    match rng.below(10) {
        0..=4 => {
            let thr = *rng.pick(&[128usize, 256, 512]);
            let allow_realloc = rng.chance(1, 2);
            let n = rng.urange(1, 28);
            let mut ins = Vec::new();
            for i in 0..n {
                let kb = *rng.pick(&[1u8, 2, 3, 200]);
                let kl = rng.urange(0, 3);
                let key = vec![kb; kl];
                let pad = match rng.below(8) {
                    0 => thr * 2 + 7,
                    1 => thr / 2,
                    _ => rng.urange(0, 30),
                };
                ins.push((B(key), B(gen::record(i as u32, pad))));
            }
            Case::Sort(SortCase {
                inserts: Entries::Literal(ins),
                knobs: SortKnobs {
                    raw_threshold: Some(thr),
                    threshold_req: None,
                    init_cap: if allow_realloc { Some(*rng.pick(&[16usize, 64, 128])) } else { None },
                    allow_realloc,
                    max_nb_chunks: *rng.pick(&[None, Some(1), Some(2)]),
                    unstable: rng.chance(1, 3),
                    parallel: rng.chance(1, 6),
                    chunk_codec: Some(codec),
                    chunk_level: None,
                    block_size: Some(1024),
                    interval: None,
                    levels: *rng.pick(&[None, Some(1), Some(2)]),
                    creator: 0,
                },
                alt_knobs: vec![],
                mf: gen::gen_merge_kind(rng),
                consume: rng.below(4) as u8,
                out_knobs: Knobs { codec, level: 1, block_size: Some(1024), interval: None, levels: 1, ctor: 0, fin: 0 },
                env,
            })
        }
        5 | 6 => {
            let n = rng.urange(0, 24);
            let spec = file(rng, n);
            let keys: Vec<Vec<u8>> = spec.entries.materialize().into_iter().map(|(k, _)| k).collect();
            let mut steps = crate::props_cursor::gen_history(rng, &keys, 12, 3);
            for st in steps.iter_mut() {
                if let Op::NextN(k) | Op::PrevN(k) = &mut st.op {
                    *k = (*k).min(6);
                }
            }
            Case::Cursor(CursorCase { spec, env, steps, fresh_each: false, v1: false, sparse_hole: None })
        }
        7 => {
            let n = rng.urange(0, 20);
            let spec = file(rng, n);
            let keys: Vec<Vec<u8>> = spec.entries.materialize().into_iter().map(|(k, _)| k).collect();
            let queries = crate::props_iter::gen_queries(rng, &keys, 3, 2);
            Case::Iter(IterCase { spec, env, queries, v1: false, interleave: false })
        }
        _ => {
            let k = rng.urange(1, 3);
            let mut sources = Vec::new();
            for _ in 0..k {
                let n = rng.urange(0, 8);
                sources.push(file(rng, n));
            }
            Case::Merge(MergeCase {
                attach: (0..k).map(|_| rng.below(3) as u8).collect(),
                sources,
                mf: gen::gen_merge_kind(rng),
                out_mode: rng.below(2) as u8,
                out_knobs: Knobs { codec, level: 1, block_size: Some(1024), interval: None, levels: 1, ctor: 0, fin: 1 },
                env,
            })
        }
    }
}
