//! File-level properties: C01 round trip, C09 format + 0.4.7 interop, C10 V1, C13 open,
//! C15 block cut, C18 order assertion.

use std::io::Cursor;
use std::num::NonZeroUsize;

use crate::case::*;
use crate::decode;
use crate::env::EnvPlan;
use crate::exec::{exec_open, Res};
use crate::gen::{self, Tier};
use crate::model;
use crate::rng::{fnv1a, Rng};
use crate::run::{run_case, RunOpts, Stats};

pub type Verdict = Option<(Violation, Option<Case>)>;

fn viol(p: &str, oracle: &str, msg: String) -> Verdict {
    Some((Violation::new(p, oracle, msg), None))
}

fn sink_bytes(recs: &[crate::exec::Rec]) -> Option<&Vec<u8>> {
    recs.iter().find_map(|r| match (&r.op[..], &r.res) {
        ("sink.bytes", Res::Bytes(b)) => Some(b),
        _ => None,
    })
}

// ------------------------------------------------------------------------------------- C01

pub fn gen_c01(rng: &mut Rng, tier: Tier) -> Case {
    if rng.chance(1, 300) {
        // thousands of tiny entries inside ONE block and an index interval larger than that (or on and
        // next to powers of two): backward moves then re-scan very long runs between two offsets
        let n = *rng.pick(&[4096u64, 8191, 8192, 8193, 8194, 9000, 12000, 16384, 16385]) + rng.range(0, 3);
        let interval = *rng.pick(&[4096usize, 8192, 8193, 16384, 65536, 1 << 20, usize::MAX]);
        let knobs = Knobs { codec: *rng.pick(&[0u8, 0, 5, 3]), level: 1, block_size: Some(*rng.pick(&[1usize << 20, 1 << 19, 3 << 20])), interval: Some(interval), levels: *rng.pick(&[0u8, 1, 2]), ctor: 0, fin: 0 };
        let spec = FileSpec { knobs, entries: Entries::Counter { n, width: *rng.pick(&[2u8, 3, 4]), start: 1, stride: 1, vlen: *rng.pick(&[0u32, 0, 1, 2]) } };
        let mut env = gen::gen_env(rng, true);
        if !env.is_whole() {
            env = EnvPlan { modes: vec![crate::env::IoMode::Chop { max: 8192 }, crate::env::IoMode::Whole], ..env };
        }
        return Case::File(FileCase { spec, env, v1: false, big: None });
    }
    let spec = if rng.chance(1, 5) { gen::gen_layered_spec(rng, tier) } else { gen::gen_file_spec(rng, tier, true) };
    Case::File(FileCase { spec, env: gen::gen_env(rng, true), v1: false, big: None })
}

pub fn check_c01(case: &Case, st: &mut Stats) -> Verdict {
    let Case::File(c) = case else { return viol("C01", "harness", "wrong case kind".into()) };
    let entries = c.spec.entries.materialize();
    let r = run_case(case, &c.env, &RunOpts::default());
    st.absorb_env(&r);
    let sb = r.recs.iter().find(|x| x.op == "sink.bytes").map(|x| x.res.clone());
    let exp = model::expect_file(c, &entries, None);
    let _ = sb;
    if let Some((_i, oracle, msg)) = model::compare(&r.recs, &exp) {
        return viol("C01", &oracle, msg);
    }
    if let Some(b) = sink_bytes(&r.recs) {
        let h = fnv1a(b);
        st.distinct.insert(h);
        if entries.len() >= 2 {
            st.nontrivial.insert(h);
        }
        // reach probes: layout of what was produced
        if let Ok(d) = decode::decode(b, None) {
            let levels = d.levels as usize;
            let data_blocks = d.blocks.iter().filter(|b| b.depth == levels + 1).count();
            if data_blocks >= 2 {
                st.c.inc("probe.file_with_2+_data_blocks");
            }
            for depth in 1..=levels {
                if d.blocks.iter().filter(|b| b.depth == depth).count() >= 2 {
                    st.c.inc("probe.file_with_2+_blocks_at_nonroot_index_level");
                    break;
                }
            }
        }
    }
    if entries.is_empty() {
        st.c.inc("probe.empty_file");
    }
    if entries.iter().any(|(k, _)| k.is_empty()) {
        st.c.inc("probe.empty_key");
    }
    if entries.iter().any(|(_, v)| v.is_empty()) {
        st.c.inc("probe.empty_value");
    }
    if entries.iter().any(|(k, v)| k.len() + v.len() > c.spec.knobs.effective_block_size()) {
        st.c.inc("probe.entry_larger_than_block");
    }
    if c.spec.knobs.levels == 255 {
        st.c.inc("probe.index_levels_255");
    }
    st.c.inc(&format!("codec.{}", c.spec.knobs.codec));
    None
}

// ------------------------------------------------------------------------------------- C09

fn old_codec(c: u8) -> grenad_0_4::CompressionType {
    use grenad_0_4::CompressionType as T;
    match c {
        0 => T::None,
        1 => T::SnappyPre05,
        2 => T::Zlib,
        3 => T::Lz4,
        4 => T::Zstd,
        _ => T::Snappy,
    }
}

fn old_builder(k: &Knobs) -> grenad_0_4::WriterBuilder {
    let mut b = grenad_0_4::Writer::builder();
    b.compression_type(old_codec(k.codec));
    b.compression_level(k.level);
    if let Some(bs) = k.block_size {
        b.block_size(bs);
    }
    if let Some(i) = k.interval {
        b.index_key_interval(NonZeroUsize::new(i.max(1)).unwrap());
    }
    b.index_levels(k.levels);
    b
}

pub fn gen_c09(rng: &mut Rng, tier: Tier) -> Case {
    let mut spec = if rng.chance(1, 4) { gen::gen_layered_spec(rng, tier) } else { gen::gen_file_spec(rng, tier, true) };
    if spec.knobs.levels == 255 {
        // 0.4.7 wraps on 255 as well; the interop matrix uses depths both versions write
        spec.knobs.levels = 254;
    }
    Case::File(FileCase { spec, env: gen::gen_env(rng, true), v1: false, big: None })
}

pub fn check_c09(case: &Case, st: &mut Stats) -> Verdict {
    let Case::File(c) = case else { return viol("C09", "harness", "wrong case kind".into()) };
    if c.big.is_some() {
        return check_big_index(case, st);
    }
    let entries = c.spec.entries.materialize();
    // write through the simulated sink only
    let env = crate::env::Env::new(c.env.clone());
    let mut tx = crate::exec::Tx::new(env.clone());
    let mut bytes = Vec::new();
    crate::exec::guarded(&mut tx, |tx| bytes = crate::exec::exec_write(tx, &c.spec));
    st.c.merge(&env.counters());
    st.io_calls += env.io_calls();
    st.public_calls += tx.recs.len() as u64;
    for r in &tx.recs {
        match &r.res {
            Res::Panic(m) => return viol("C09", &format!("panic.{}", r.op), format!("{} panicked: {}", r.op, m)),
            Res::Err(e) => return viol("C09", &format!("err.{}", r.op), format!("{} failed: {}", r.op, e.text)),
            _ => {}
        }
    }
    // (1) independent decoder
    let k = &c.spec.knobs;
    let d = match decode::decode(&bytes, Some(k.effective_interval())) {
        Ok(d) => d,
        Err(e) => return viol("C09", "decoder-rejects", format!("independent decoder rejects the file: {}", e)),
    };
    if d.version != 2 {
        return viol("C09", "trailer.version", format!("trailer is version {}", d.version));
    }
    if d.codec != k.codec {
        return viol("C09", "trailer.codec", format!("trailer codec {} but configured {}", d.codec, k.codec));
    }
    if d.levels != k.levels {
        return viol("C09", "trailer.levels", format!("trailer levels {} but configured {}", d.levels, k.levels));
    }
    if d.count != entries.len() as u64 {
        return viol("C09", "trailer.count", format!("trailer count {} but {} inserted", d.count, entries.len()));
    }
    if d.data != entries {
        return viol("C09", "decoder-data", "entries recovered by the independent decoder differ from the inserted ones".into());
    }
    let h = fnv1a(&bytes);
    st.distinct.insert(h);
    if d.blocks.len() >= 3 {
        st.nontrivial.insert(h);
    }
    st.c.add("decoded_blocks", d.blocks.len() as u64);
    st.c.inc(&format!("codec.{}", k.codec));
    // (2) grenad 0.4.7 reader over the current file
    crate::exec::IN_GUARD.fetch_add(2, std::sync::atomic::Ordering::SeqCst);
    let r = std::panic::catch_unwind(std::panic::AssertUnwindSafe(|| -> Result<(), String> {
        let rd = grenad_0_4::Reader::new(Cursor::new(bytes.as_slice())).map_err(|e| format!("0.4.7 Reader::new: {}", e))?;
        if rd.len() != entries.len() as u64 {
            return Err(format!("0.4.7 reader reports len {} not {}", rd.len(), entries.len()));
        }
        let mut cur = rd.into_cursor().map_err(|e| format!("0.4.7 into_cursor: {}", e))?;
        for (i, (k, v)) in entries.iter().enumerate() {
            match cur.move_on_next().map_err(|e| format!("0.4.7 next: {}", e))? {
                Some((kk, vv)) if kk == k.as_slice() && vv == v.as_slice() => {}
                other => return Err(format!("0.4.7 scan entry #{} differs: {:?}", i, other.map(|(k, _)| k.to_vec()))),
            }
        }
        if cur.move_on_next().map_err(|e| format!("0.4.7 next: {}", e))?.is_some() {
            return Err("0.4.7 scan yields more than inserted".into());
        }
        // sample of seeks on reset cursors
        let step = (entries.len() / 16).max(1);
        for i in (0..entries.len()).step_by(step) {
            cur.reset();
            match cur.move_on_key_greater_than_or_equal_to(&entries[i].0).map_err(|e| format!("0.4.7 seek: {}", e))? {
                Some((kk, vv)) if kk == entries[i].0.as_slice() && vv == entries[i].1.as_slice() => {}
                _ => return Err(format!("0.4.7 seek of stored key #{} differs", i)),
            }
        }
        Ok(())
    }));
    match r {
        Ok(Ok(())) => {}
        Ok(Err(e)) => return viol("C09", "old-reader", e),
        Err(_) => return viol("C09", "old-reader-panic", format!("0.4.7 reader panicked: {}", crate::exec::take_panic())),
    }
    // (3) 0.4.7 writer -> current reader
    let old = std::panic::catch_unwind(std::panic::AssertUnwindSafe(|| -> std::io::Result<Vec<u8>> {
        let mut w = old_builder(k).memory();
        for (k, v) in &entries {
            w.insert(k, v)?;
        }
        w.into_inner()
    }));
    crate::exec::IN_GUARD.fetch_sub(2, std::sync::atomic::Ordering::SeqCst);
    let old_bytes = match old {
        Ok(Ok(b)) => b,
        Ok(Err(e)) => return viol("C09", "old-writer", format!("0.4.7 writer failed: {}", e)),
        Err(_) => {
            let _ = crate::exec::take_panic();
            st.c.inc("skipped.old_writer_panicked");
            return None;
        }
    };
    let n = entries.len();
    let probe_keys: Vec<Vec<u8>> = entries.iter().step_by((n / 16).max(1)).map(|(k, _)| k.clone()).collect();
    let mut steps = Vec::new();
    for _ in 0..n + 1 {
        steps.push(CursorStep { cur: 0, op: Op::Next });
    }
    for q in &probe_keys {
        steps.push(CursorStep { cur: 0, op: Op::Reset });
        steps.push(CursorStep { cur: 0, op: Op::Ge(B(q.clone())) });
        steps.push(CursorStep { cur: 0, op: Op::Reset });
        steps.push(CursorStep { cur: 0, op: Op::Le(B(q.clone())) });
        steps.push(CursorStep { cur: 0, op: Op::Reset });
        steps.push(CursorStep { cur: 0, op: Op::Eq(B(q.clone())) });
    }
    let cc = CursorCase { spec: c.spec.clone(), env: c.env.clone(), steps, fresh_each: false, v1: false, sparse_hole: None };
    let env2 = crate::env::Env::new(c.env.clone());
    let mut tx2 = crate::exec::Tx::new(env2.clone());
    crate::exec::guarded(&mut tx2, |tx| crate::exec::exec_cursor(tx, &cc, old_bytes, &mut |_, _, _| {}));
    st.c.merge(&env2.counters());
    let mut ms = model::CursorModelStats { window_entries: 0, abs_from_window: 0, judged: 0, unjudged: 0 };
    let exp = model::expect_cursor(&cc, &entries, &mut ms);
    if let Some((_i, oracle, msg)) = model::compare(&tx2.recs, &exp) {
        return viol("C09", &format!("new-reader-on-old-file.{}", oracle), msg);
    }
    st.c.inc("interop_matrix_cells_checked");
    None
}

// ------------------------------------------------------------------------------------- C15

/// Index-block landers: keys about as long as the block, so every index entry (key + 8-byte offset
/// + framing + footer) sits within a few bytes of the block size at every level.
fn gen_c15_lander(rng: &mut Rng) -> Case {
    let b = match rng.below(3) {
        0 => 1024,
        1 => rng.urange(1024, 4096),
        _ => rng.urange(16380, 17000),
    };
    let levels = *rng.pick(&[2u8, 3, 3, 4]);
    let n = rng.urange(2, 14);
    let mut keys = std::collections::BTreeSet::new();
    for i in 0..n {
        // 12 (footer: one offset + count) + varints + key + 8 (value) == b  <=>  key = b - 20 - varints
        let vl = if b - 24 >= 16384 { 3 } else if b - 24 >= 128 { 2 } else { 1 };
        let target = b - 20 - vl - 1;
        let len = (target as i64 + rng.range(0, 6) as i64 - 3).max(1) as usize;
        let mut k = vec![0x41u8; len];
        let tag = (i as u32).to_be_bytes();
        k[..4.min(len)].copy_from_slice(&tag[..4.min(len)]);
        keys.insert(k);
    }
    let ents = keys.into_iter().map(|k| (B(k), B(vec![7u8; 0]))).collect();
    let knobs = Knobs { codec: 0, level: 0, block_size: Some(b), interval: *rng.pick(&[None, Some(1)]), levels, ctor: 0, fin: 0 };
    Case::File(FileCase { spec: FileSpec { knobs, entries: Entries::Literal(ents) }, env: EnvPlan::whole(), v1: false, big: None })
}

/// Data-block landers for large blocks: a value with two, three or four length bytes followed by a
/// value sized so that the block's uncompressed size lands exactly on (or one byte around) B.
fn gen_c15_data_lander(rng: &mut Rng) -> Case {
    fn vl(x: usize) -> usize {
        if x < 128 {
            1
        } else if x < 16_384 {
            2
        } else if x < (1 << 21) {
            3
        } else {
            4
        }
    }
    // the first value sits in a chosen length class (2, 3 or 4 length bytes), at the low end, the
    // high end or anywhere inside it
    let (lo, hi) = match rng.weighted(&[25, 50, 25]) {
        0 => (128usize, 16_383usize),
        1 => (16_384, (1 << 21) - 1),
        _ => (1 << 21, (1 << 22) + 70_000),
    };
    let v1 = match rng.below(4) {
        0 => lo + rng.urange(0, 40),
        1 => hi - rng.urange(0, 40),
        2 => rng.urange(lo, hi.min(lo.saturating_mul(2))),
        _ => rng.urange(lo, hi),
    };
    let b = v1 + rng.urange(2_000, 40_000);
    // size after two entries with one-byte keys: 12 + (1 + vl(v1) + 1 + v1) + (1 + vl(v2) + 1 + v2)
    let rest = b - 12 - (2 + vl(v1) + v1) - 2;
    let l2 = if rest - 3 >= 16_384 { 3 } else if rest - 2 >= 128 { 2 } else { 1 };
    let v2 = (rest - l2) as i64 + rng.range(0, 2) as i64 - 1;
    let ents = vec![
        (B(vec![b'a']), B(vec![0x11; v1])),
        (B(vec![b'b']), B(vec![0x22; v2.max(0) as usize])),
        (B(vec![b'c']), B(vec![0x33; rng.urange(0, 9)])),
        (B(vec![b'd']), B(vec![0x44; rng.urange(0, 9)])),
    ];
    let knobs = Knobs { codec: 0, level: 0, block_size: Some(b), interval: None, levels: *rng.pick(&[0u8, 1, 2]), ctor: 0, fin: 0 };
    Case::File(FileCase { spec: FileSpec { knobs, entries: Entries::Literal(ents) }, env: EnvPlan::whole(), v1: false, big: None })
}

pub fn gen_c15(rng: &mut Rng, tier: Tier) -> Case {
    if rng.chance(1, 6) {
        return gen_c15_lander(rng);
    }
    if rng.chance(1, 12) {
        return gen_c15_data_lander(rng);
    }
    let mut spec = if rng.chance(1, 2) { gen::gen_layered_spec(rng, tier) } else { gen::gen_file_spec(rng, tier, false) };
    if rng.chance(1, 3) {
        spec.knobs.interval = Some(1);
    }
    if rng.chance(1, 3) {
        spec.knobs.levels = *rng.pick(&[2u8, 3, 4]);
    }
    Case::File(FileCase { spec, env: EnvPlan::whole(), v1: false, big: None })
}

pub fn check_c15(case: &Case, st: &mut Stats) -> Verdict {
    let Case::File(c) = case else { return viol("C15", "harness", "wrong case kind".into()) };
    let bytes = match crate::exec::write_plain(&c.spec) {
        Ok(b) => b,
        Err(e) => return viol("C15", "write-failed", e),
    };
    let d = match decode::decode(&bytes, None) {
        Ok(d) => d,
        Err(e) => return viol("C15", "decoder-rejects", format!("independent decoder rejects the file: {}", e)),
    };
    let bsz = c.spec.knobs.effective_block_size();
    let levels = d.levels as usize;
    let mut last_at_depth = vec![0u64; levels + 2];
    for b in &d.blocks {
        last_at_depth[b.depth] = last_at_depth[b.depth].max(b.off);
    }
    let mut checked = 0u64;
    for b in &d.blocks {
        let subject = b.depth == levels + 1 || (b.depth >= 2 && b.depth <= levels);
        if !subject {
            continue;
        }
        checked += 1;
        if let Some(s) = decode::size_without_last(b) {
            if s >= bsz {
                return viol(
                    "C15",
                    "late-cut",
                    format!(
                        "block at {} (depth {}, {} entries, size {}) would already be >= block size {} without its final entry ({})",
                        b.off,
                        b.depth,
                        b.entries.len(),
                        b.size(),
                        bsz,
                        s
                    ),
                );
            }
            if b.offsets.len() > 1 && *b.offsets.last().unwrap() == b.entries.last().unwrap().0 as u64 {
                st.c.inc("probe.last_entry_opened_offset_slot");
            }
        }
        let is_last = b.off == last_at_depth[b.depth];
        if !is_last && b.size() < bsz {
            return viol(
                "C15",
                "early-cut",
                format!("non-final block at {} (depth {}) has size {} < block size {}", b.off, b.depth, b.size(), bsz),
            );
        }
        if b.depth >= 2 && b.depth <= levels {
            st.c.inc("probe.index_block_depth>=2_checked");
            if !is_last {
                st.c.inc("probe.nonfinal_index_block_depth>=2");
            }
        }
        if b.size() == bsz {
            st.c.inc("probe.block_exactly_at_threshold");
        }
    }
    st.c.add("blocks_checked", checked);
    let h = fnv1a(&bytes);
    st.distinct.insert(h);
    if checked >= 2 {
        st.nontrivial.insert(h);
    }
    None
}

// ------------------------------------------------------------------------------------- C18

pub fn gen_c18(rng: &mut Rng, tier: Tier) -> Case {
    let mut spec = if rng.chance(1, 3) { gen::gen_layered_spec(rng, tier) } else { gen::gen_file_spec(rng, tier, false) };
    spec.knobs.ctor = 0;
    let Entries::Literal(mut ents) = spec.entries.clone() else { unreachable!() };
    if ents.len() > 600 {
        ents.truncate(600);
    }
    let nfaults = if ents.len() < 2 { 0 } else { rng.weighted(&[15, 50, 25, 10]) };
    for _ in 0..nfaults {
        if ents.len() < 2 {
            break;
        }
        let i = rng.urange(1, ents.len() - 1);
        match rng.below(5) {
            0 => ents[i].0 = ents[i - 1].0.clone(), // duplicate of previous
            1 => {
                // smaller than previous, larger than the one before
                if i >= 2 {
                    let mut k = ents[i - 2].0 .0.clone();
                    k.push(0);
                    if B(k.clone()) < ents[i - 1].0 {
                        ents[i].0 = B(k);
                    } else {
                        ents[i].0 = ents[i - 1].0.clone();
                    }
                } else {
                    ents[i].0 = B(gen::pred(&ents[i - 1].0 .0));
                }
            }
            2 => ents[i].0 = B(Vec::new()), // smaller than everything (or dup of empty)
            3 => ents.swap(i - 1, i),
            _ => {
                // re-insert an older key later on
                let j = rng.urange(0, i - 1);
                ents[i].0 = ents[j].0.clone();
            }
        }
    }
    spec.entries = Entries::Literal(ents);
    Case::File(FileCase { spec, env: EnvPlan::whole(), v1: false, big: None })
}

pub fn check_c18(case: &Case, st: &mut Stats) -> Verdict {
    let Case::File(c) = case else { return viol("C18", "harness", "wrong case kind".into()) };
    let entries = c.spec.entries.materialize();
    let first_fault = (1..entries.len()).find(|i| entries[*i].0 <= entries[*i - 1].0);
    let env = crate::env::Env::new(EnvPlan::whole());
    let mut tx = crate::exec::Tx::new(env.clone());
    let mut bytes = Vec::new();
    crate::exec::guarded(&mut tx, |tx| bytes = crate::exec::exec_write(tx, &c.spec));
    st.public_calls += tx.recs.len() as u64;
    let h = fnv1a(format!("{:?}", tx.recs.len()).as_bytes()) ^ fnv1a(&bytes) ^ first_fault.map(|x| x as u64 * 0x9E37).unwrap_or(7);
    st.distinct.insert(h);
    if first_fault.is_some() {
        st.nontrivial.insert(h);
    }
    for (i, r) in tx.recs.iter().enumerate() {
        match &r.res {
            Res::Panic(m) => {
                return match first_fault {
                    None => viol("C18", "panic-on-sorted", format!("sorted input panicked at call #{} {}: {}", i, r.op, m)),
                    Some(f) if r.op == "Writer::insert" && i < f => {
                        viol("C18", "panic-before-fault", format!("panic at insert #{} before the first order fault #{}: {}", i, f, m))
                    }
                    Some(_) => {
                        st.c.inc("outcome.panicked");
                        if r.op != "Writer::insert" {
                            st.c.inc("probe.panic_at_finish");
                        } else if Some(i) != first_fault {
                            st.c.inc("probe.panic_later_than_faulty_insert");
                        }
                        None
                    }
                };
            }
            Res::Err(e) => return viol("C18", &format!("err.{}", r.op), format!("{} failed: {}", r.op, e.text)),
            _ => {}
        }
    }
    // no panic: every block must be strictly ascending
    let (_, blocks) = match decode::decode_blocks_lenient(&bytes) {
        Ok(x) => x,
        Err(e) => return viol("C18", "decoder-rejects", format!("finished file does not decode: {}", e)),
    };
    for b in &blocks {
        if let Err(e) = decode::strictly_ascending(b) {
            return viol("C18", "unsorted-block", format!("no panic, yet {}", e));
        }
    }
    if first_fault.is_some() {
        st.c.inc("outcome.fault_absorbed_blocks_sorted");
    } else {
        st.c.inc("outcome.sorted_input_ok");
    }
    None
}

// ------------------------------------------------------------------------------------- C13

pub fn gen_c13(rng: &mut Rng, tier: Tier) -> Case {
    let mut spec = gen::gen_file_spec(rng, tier, false);
    let Entries::Literal(mut ents) = spec.entries.clone() else { unreachable!() };
    // keep files small: every truncation is opened
    let cap = if tier == Tier::Quick { 24 * 1024 } else { 64 * 1024 };
    let mut total = 0usize;
    ents.retain(|(k, v)| {
        total += k.0.len() + v.0.len() + 4;
        total < cap
    });
    if rng.chance(1, 2) {
        // planting profile: codec None, values carry images of complete / near-miss trailers
        spec.knobs.codec = 0;
        for (_, v) in ents.iter_mut() {
            if rng.chance(1, 3) {
                let v2 = rng.chance(1, 2);
                let codec = *rng.pick(&[0u8, 1, 2, 3, 4, 5, 5, 6, 7, 255]);
                let mut t = Vec::new();
                t.extend_from_slice(&rng.next_u64().to_le_bytes());
                t.push(codec);
                t.extend_from_slice(&rng.next_u64().to_le_bytes());
                if v2 {
                    t.push(rng.below(256) as u8);
                    t.extend_from_slice(&0x6723_D4C4u32.to_le_bytes());
                } else {
                    t.extend_from_slice(&0x7632_4D4Cu32.to_le_bytes());
                }
                let cut = rng.weighted(&[70, 30]);
                if cut == 1 {
                    // keep only the tail (magic preceded by too few bytes once the file is cut there)
                    let keep = rng.urange(4, t.len());
                    t = t[t.len() - keep..].to_vec();
                }
                v.0 = t;
            }
        }
    }
    spec.entries = Entries::Literal(ents);
    Case::File(FileCase { spec, env: gen::gen_env(rng, true), v1: rng.chance(1, 4), big: None })
}

fn open_matches(bytes: &[u8]) -> Result<bool, String> {
    let want = decode::trailer_valid(bytes);
    match exec_open(bytes) {
        Res::Panic(m) => Err(format!("Reader::new panicked on a {}-byte string: {}", bytes.len(), m)),
        Res::Meta { len, codec, version } => {
            if !want {
                return Err(format!(
                    "Reader::new accepted a {}-byte string that does not end in a complete trailer",
                    bytes.len()
                ));
            }
            let t = decode::parse_trailer(bytes).map_err(|e| format!("predicate/parse disagreement: {}", e))?;
            if t.count != len || t.codec != codec || (t.version - 1) != version {
                return Err(format!(
                    "Reader::new reports (len {}, codec {}, v{}) but the trailer holds (len {}, codec {}, v{})",
                    len,
                    codec,
                    version + 1,
                    t.count,
                    t.codec,
                    t.version
                ));
            }
            Ok(true)
        }
        Res::Err(_) => {
            if want {
                Err(format!("Reader::new rejected a {}-byte string that ends in a complete valid trailer", bytes.len()))
            } else {
                Ok(false)
            }
        }
        other => Err(format!("unexpected open result {}", other.short())),
    }
}

pub fn check_c13(case: &Case, st: &mut Stats) -> Verdict {
    let fail = |msg: String, bytes: &[u8]| -> Verdict {
        let oracle = if msg.contains("panicked") {
            "open-panic"
        } else if msg.contains("accepted") {
            "open-accepts-invalid"
        } else if msg.contains("rejected") {
            "open-rejects-valid"
        } else {
            "open-fields"
        };
        Some((Violation::new("C13", oracle, msg), Some(Case::Open(OpenCase { bytes: B(bytes.to_vec()) }))))
    };
    match case {
        Case::Open(o) => {
            st.evaluations += 1;
            match open_matches(&o.bytes.0) {
                Ok(_) => None,
                Err(m) => fail(m, &o.bytes.0),
            }
        }
        Case::File(c) => {
            let mut spec = c.spec.clone();
            if c.v1 {
                spec.knobs.levels = 0;
            }
            let full = match crate::exec::write_plain(&spec) {
                Ok(b) => b,
                Err(e) => return viol("C13", "write-failed", e),
            };
            let full = if c.v1 { crate::exec::to_v1(&full).unwrap_or(full) } else { full };
            let h = fnv1a(&full);
            st.distinct.insert(h);
            st.nontrivial.insert(h);
            // (a) every truncation length
            for t in 0..=full.len() {
                st.evaluations += 1;
                match open_matches(&full[..t]) {
                    Ok(true) if t < full.len() => st.c.inc("probe.coincidentally_valid_truncation"),
                    Ok(true) => st.c.inc("open.accepted_complete_file"),
                    Ok(false) => {
                        st.c.inc("open.rejected_truncation");
                        let tl = if c.v1 { 21 } else { 22 };
                        if t + tl > full.len() {
                            st.c.inc("crash_region.inside_trailer");
                        } else {
                            st.c.inc("crash_region.inside_blocks");
                        }
                    }
                    Err(m) => return fail(m, &full[..t]),
                }
            }
            // the same verdicts through a source that serves short and interrupted reads (the
            // trailer may arrive in pieces that end anywhere, e.g. one byte before the end of the file)
            for cut in [0usize, 1, 2, 3, 21, 22, 23] {
                if cut > full.len() {
                    continue;
                }
                let s = &full[..full.len() - cut];
                let want = decode::trailer_valid(s);
              // the source may stand anywhere when it is handed over: byte 0, inside the trailer, at
              // the end or past it (a reader recovered with into_inner and wrapped again)
              let hs = crate::rng::mix(h, cut as u64);
              for start in [c.env.src_start, -(1 + (hs % 26) as i64), s.len() as i64 + (hs >> 8) as i64 % 9] {
                let mut plan0 = c.env.clone();
                plan0.src_start = start;
                let env = crate::env::Env::new(plan0.clone());
                let mut tx = crate::exec::Tx::new(env.clone());
                let bytes = s.to_vec();
                crate::exec::guarded(&mut tx, |tx| {
                    let _ = crate::exec::open_reader(tx, bytes);
                });
                st.c.merge(&env.counters());
                st.evaluations += 1;
                let got = tx.recs.first().map(|r| r.res.clone());
                let ok = match &got {
                    Some(Res::Meta { .. }) => want,
                    Some(Res::Err(_)) => !want,
                    _ => false,
                };
                if !ok {
                    return Some((
                        Violation::new(
                            "C13",
                            "open-through-short-reads",
                            format!(
                                "a {}-byte string that {} in a complete trailer, opened through a source serving short/interrupted reads and standing at {} before the call: {}",
                                s.len(),
                                if want { "ends" } else { "does not end" },
                                start,
                                got.map(|g| g.short()).unwrap_or_default()
                            ),
                        ),
                        None,
                    ));
                }
                st.c.inc("open.through_simulated_source");
                if start != 0 {
                    st.c.inc("open.source_not_at_byte_0");
                }
              }
            }
            // every short suffix of the finished file (a trailer that lost bytes at its front)
            for l in 0..=full.len().min(30) {
                st.evaluations += 1;
                let sfx = &full[full.len() - l..];
                match open_matches(sfx) {
                    Ok(true) => st.c.inc("suffix.accepted"),
                    Ok(false) => st.c.inc("suffix.rejected"),
                    Err(m) => return fail(m, sfx),
                }
            }
            // a sample of crash points reproduced literally by crashing the writer
            let mut rng = Rng::new(h);
            if !c.v1 && full.len() > 0 {
                for _ in 0..4 {
                    let t = match rng.below(3) {
                        0 => rng.range(full.len().saturating_sub(22) as u64, full.len() as u64 - 1),
                        _ => rng.range(0, full.len() as u64 - 1),
                    };
                    let mut plan = c.env.clone();
                    plan.crash = Some(t);
                    let env = crate::env::Env::new(plan);
                    let mut tx = crate::exec::Tx::new(env.clone());
                    let mut durable = Vec::new();
                    crate::exec::guarded(&mut tx, |tx| durable = crate::exec::exec_write(tx, &spec));
                    st.c.merge(&env.counters());
                    if spec.knobs.ctor == 2 || spec.knobs.ctor == 3 {
                        continue;
                    }
                    if tx.recs.iter().any(|r| r.res.is_panic()) {
                        return viol("C13", "crash-writer-panic", format!("writer panicked when its sink died at byte {}", t));
                    }
                    if durable != full[..t as usize] {
                        return viol(
                            "C13",
                            "crash-prefix-differs",
                            format!("durable bytes after a crash at {} are not the first {} bytes of the finished file", t, t),
                        );
                    }
                    let crashed_call_err = tx.recs.iter().any(|r| matches!(&r.res, Res::Err(e) if e.crash));
                    if !crashed_call_err {
                        return viol("C13", "crash-not-reported", format!("sink died at byte {} but no call reported it", t));
                    }
                    st.c.inc("crash.literal_writer_crashes");
                    st.evaluations += 1;
                }
            }
            // (b) every single-byte corruption of the trailer
            let tl = if c.v1 { 21 } else { 22 };
            if full.len() >= tl {
                let mut buf = full.clone();
                let base = full.len() - tl;
                for p in 0..tl {
                    let orig = buf[base + p];
                    for val in 0..=255u8 {
                        if val == orig {
                            continue;
                        }
                        buf[base + p] = val;
                        st.evaluations += 1;
                        match open_matches(&buf) {
                            Ok(true) => st.c.inc("flip.still_valid"),
                            Ok(false) => st.c.inc("flip.rejected"),
                            Err(m) => return fail(m, &buf),
                        }
                    }
                    buf[base + p] = orig;
                }
            }
            // (c) arbitrary and structured strings
            for _ in 0..64 {
                let s = gen_open_string(&mut rng);
                st.evaluations += 1;
                match open_matches(&s) {
                    Ok(true) => st.c.inc("arbitrary.accepted"),
                    Ok(false) => st.c.inc("arbitrary.rejected"),
                    Err(m) => return fail(m, &s),
                }
            }
            None
        }
        _ => viol("C13", "harness", "wrong case kind".into()),
    }
}

fn gen_open_string(rng: &mut Rng) -> Vec<u8> {
    if rng.chance(1, 3) {
        let l = rng.urange(0, 64);
        return rng.bytes(l);
    }
    let body = rng.urange(0, 40);
    let mut s = rng.bytes(body);
    let magic = match rng.below(4) {
        0 => 0x6723_D4C4u32,
        1 => 0x7632_4D4C,
        2 => 0x6723_D4C4u32 ^ (1 << rng.below(32)),
        _ => rng.next_u64() as u32,
    };
    let codec = *rng.pick(&[0u8, 1, 2, 3, 4, 5, 6, 7, 128, 255]);
    s.extend_from_slice(&rng.next_u64().to_le_bytes());
    s.push(codec);
    s.extend_from_slice(&rng.next_u64().to_le_bytes());
    if rng.chance(1, 2) {
        s.push(rng.below(256) as u8);
    }
    s.extend_from_slice(&magic.to_le_bytes());
    // off-by-one lengths: cut from the front so that 17..=23 bytes remain sometimes
    if rng.chance(1, 2) {
        let keep = *rng.pick(&[4usize, 5, 17, 18, 20, 21, 22, 23]);
        if s.len() > keep {
            s = s[s.len() - keep..].to_vec();
        }
    }
    s
}

// ------------------------------------------------------------------------------------- C10

/// One case in `one_in`: the root index block lives behind a hole that pushes it around or beyond
/// the 4 GiB line (offsets that no longer fit 32 bits).
pub fn gen_hole(rng: &mut Rng, one_in: u64) -> Option<u64> {
    if rng.chance(1, one_in) {
        Some(*rng.pick(&[(1u64 << 32) - 4096, (1 << 32) - 1, 1 << 32, (1 << 32) + (1 << 20), (1 << 33) + 12345, 1 << 40]))
    } else {
        None
    }
}

pub fn gen_c10(rng: &mut Rng, tier: Tier) -> Case {
    let mut spec = gen::gen_file_spec(rng, tier, false);
    spec.knobs.levels = 0;
    spec.knobs.ctor = 0;
    let Entries::Literal(mut ents) = spec.entries.clone() else { unreachable!() };
    if ents.len() > 1500 {
        ents.truncate(1500);
    }
    if rng.chance(1, 12) {
        // many very regular tiny entries: data that compresses to less than a byte per entry
        let n = rng.urange(2000, 9000);
        ents = (0..n).map(|i| (B(format!("{:010}", i * 3).into_bytes()), B(Vec::new()))).collect();
        spec.knobs.codec = *rng.pick(&[4u8, 4, 2, 5]);
        spec.knobs.level = *rng.pick(&[1u32, 3]);
        spec.knobs.block_size = *rng.pick(&[None, Some(65536), Some(usize::MAX)]);
    }
    spec.entries = Entries::Literal(ents.clone());
    let keys: Vec<Vec<u8>> = ents.iter().map(|(k, _)| k.0.clone()).collect();
    let env = gen::gen_env(rng, true);
    match rng.below(4) {
        0 => Case::File(FileCase { spec, env, v1: true, big: None }),
        1 => {
            let probes = gen::gen_probes(rng, &keys, 300);
            let mut steps = Vec::new();
            for q in probes {
                let op = match rng.below(3) {
                    0 => Op::Ge(B(q)),
                    1 => Op::Le(B(q)),
                    _ => Op::Eq(B(q)),
                };
                steps.push(CursorStep { cur: 0, op });
            }
            let sparse_hole = gen_hole(rng, 5);
            Case::Cursor(CursorCase { spec, env, steps, fresh_each: true, v1: true, sparse_hole })
        }
        2 => {
            let steps = crate::props_cursor::gen_history(rng, &keys, 80, 40);
            let sparse_hole = gen_hole(rng, 5);
            Case::Cursor(CursorCase { spec, env, steps, fresh_each: false, v1: true, sparse_hole })
        }
        _ => {
            let queries = crate::props_iter::gen_queries(rng, &keys, 24, 2);
            Case::Iter(IterCase { spec, env, queries, v1: true, interleave: false })
        }
    }
}

pub fn check_c10(case: &Case, st: &mut Stats) -> Verdict {
    // run the V1 twin against the model, then the V2 twin, and require identical transcripts
    let (v1_res, v2_res, exp) = match case {
        Case::File(c) => {
            let entries = c.spec.entries.materialize();
            let r1 = run_case(case, &c.env, &RunOpts::default());
            let mut c2 = c.clone();
            c2.v1 = false;
            let r2 = run_case(&Case::File(c2), &c.env, &RunOpts::default());
            (r1, r2, model::expect_file(c, &entries, None))
        }
        Case::Cursor(c) => {
            let entries = c.spec.entries.materialize();
            let r1 = run_case(case, &c.env, &RunOpts::default());
            let mut c2 = c.clone();
            c2.v1 = false;
            let r2 = run_case(&Case::Cursor(c2), &c.env, &RunOpts::default());
            let mut ms = model::CursorModelStats { window_entries: 0, abs_from_window: 0, judged: 0, unjudged: 0 };
            (r1, r2, model::expect_cursor(c, &entries, &mut ms))
        }
        Case::Iter(c) => {
            let entries = c.spec.entries.materialize();
            let r1 = run_case(case, &c.env, &RunOpts::default());
            let mut c2 = c.clone();
            c2.v1 = false;
            let r2 = run_case(&Case::Iter(c2), &c.env, &RunOpts::default());
            (r1, r2, model::expect_iter(c, &entries))
        }
        _ => return viol("C10", "harness", "wrong case kind".into()),
    };
    st.absorb_env(&v1_res);
    if let Some(e) = &v1_res.setup_err {
        return viol("C10", "setup", e.clone());
    }
    if let Some((_i, oracle, msg)) = model::compare(&v1_res.recs, &exp) {
        return viol("C10", &format!("v1-vs-model.{}", oracle), msg);
    }
    // twin comparison (judged positions only; the Meta record differs by version)
    if v1_res.recs.len() != v2_res.recs.len() {
        return viol("C10", "twin-length", format!("V1 transcript has {} calls, V2 twin {}", v1_res.recs.len(), v2_res.recs.len()));
    }
    for (i, (a, b)) in v1_res.recs.iter().zip(v2_res.recs.iter()).enumerate() {
        let judged = exp.get(i).map(|e| e.1.is_some()).unwrap_or(false);
        if !judged {
            continue;
        }
        let same = match (&a.res, &b.res) {
            (Res::Meta { len: l1, codec: c1, version: 0 }, Res::Meta { len: l2, codec: c2, version: 1 }) => l1 == l2 && c1 == c2,
            (x, y) => x == y,
        };
        if !same {
            return viol("C10", "twin-differs", format!("call #{} {}: V1 {} vs V2 {}", i, a.op, a.res.short(), b.res.short()));
        }
    }
    let h = v1_res.files.first().map(|b| fnv1a(b)).unwrap_or_else(|| crate::run::transcript_digest(&v1_res.recs));
    st.distinct.insert(h ^ crate::run::transcript_digest(&v1_res.recs));
    if v1_res.recs.len() > 4 {
        st.nontrivial.insert(h ^ crate::run::transcript_digest(&v1_res.recs));
    }
    st.c.inc(match case {
        Case::File(_) => "v1.scan_cases",
        Case::Cursor(c) if c.fresh_each => "v1.seek_cases",
        Case::Cursor(_) => "v1.history_cases",
        _ => "v1.iterator_cases",
    });
    None
}

// ------------------------------------------------------------------------------------- beyond 4 GiB

pub fn gen_big(rng: &mut Rng, levels: u8) -> Case {
    let filler_len = 1u32 << 20;
    let fillers = rng.range(4100, 4200) as u32; // > 4 GiB of block bodies
    let knobs = Knobs { codec: 0, level: 0, block_size: *rng.pick(&[None, Some(4096)]), interval: *rng.pick(&[None, Some(1)]), levels, ctor: 0, fin: 1 };
    Case::File(FileCase {
        spec: FileSpec { knobs, entries: Entries::Literal(vec![]) },
        env: EnvPlan::whole(),
        v1: false,
        big: Some(BigSpec { fillers, filler_len, small: rng.range(40, 1200) as u32 }),
    })
}

fn read_block_at(d: &crate::env::SparseData, off: u64, depth: usize) -> Result<decode::BlockInfo, String> {
    let pre = d.read_at(off, 8).ok_or_else(|| format!("no stored bytes at {} (length prefix of a block)", off))?;
    let mut a = [0u8; 8];
    a.copy_from_slice(pre);
    let len = u64::from_be_bytes(a);
    if len > (1 << 26) {
        return Err(format!("block at {} claims a stored length of {} bytes", off, len));
    }
    let body = d.read_at(off + 8, len as usize).ok_or_else(|| format!("block at {}: body of {} bytes is not stored", off, len))?;
    let mut tmp = Vec::with_capacity(8 + body.len());
    tmp.extend_from_slice(&a);
    tmp.extend_from_slice(body);
    let mut b = decode::parse_block(&tmp, 0, tmp.len() as u64, 0, depth)?;
    b.off = off;
    Ok(b)
}

/// C09 on a file beyond 4 GiB: the index written by the real writer, walked by the independent
/// decoder over the sparse sink, must map the last key of every data block to the offset at which
/// that block was observed to start.
pub fn check_big_index(case: &Case, st: &mut Stats) -> Verdict {
    let Case::File(c) = case else { return viol("C09", "harness", "wrong case kind".into()) };
    let Some(big) = &c.big else { return viol("C09", "harness", "not a big case".into()) };
    let env = crate::env::Env::new(EnvPlan::whole());
    let mut tx = crate::exec::Tx::new(env.clone());
    let mut out = None;
    crate::exec::guarded(&mut tx, |tx| out = crate::exec::exec_big_write(tx, &c.spec.knobs, big.fillers, big.filler_len, big.small));
    st.public_calls += (big.fillers + big.small) as u64;
    st.io_calls += env.io_calls();
    for r in &tx.recs {
        match &r.res {
            Res::Panic(m) => return viol("C09", &format!("big.panic.{}", r.op), format!("{} panicked: {}", r.op, m)),
            Res::Err(e) => return viol("C09", &format!("big.err.{}", r.op), format!("{} failed: {}", r.op, e.text)),
            _ => {}
        }
    }
    let Some(out) = out else { return viol("C09", "big.harness", "no output".into()) };
    let d = out.data.borrow();
    st.c.max("max.file_length_bytes", d.len);
    if d.len < (1u64 << 32) {
        return viol("C09", "big.harness", format!("the file is only {} bytes long", d.len));
    }
    let t = match d.read_at(d.len - 22, 22) {
        Some(t) => t.to_vec(),
        None => return viol("C09", "big.trailer", "the last 22 bytes were not stored".into()),
    };
    let tr = match decode::parse_trailer(&t) {
        Ok(t) => t,
        Err(e) => return viol("C09", "big.trailer", e),
    };
    let total = (big.fillers + big.small) as u64;
    if tr.count != total || tr.levels != c.spec.knobs.levels || tr.codec != 0 || tr.version != 2 {
        return viol("C09", "big.trailer-fields", format!("trailer (count {}, levels {}, codec {}, v{}) for {} entries at {} levels", tr.count, tr.levels, tr.codec, tr.version, total, c.spec.knobs.levels));
    }
    // expected lowest-level index entries: (last key of the block, start of the block)
    let mut expected: Vec<(Vec<u8>, u64)> = Vec::new();
    for (i, k) in out.keys.iter().enumerate() {
        let start = out.block_starts[i];
        match expected.last_mut() {
            Some((lk, s)) if *s == start => *lk = k.clone(),
            _ => expected.push((k.clone(), start)),
        }
    }
    // walk the index tree
    let levels = tr.levels as usize;
    let mut got: Vec<(Vec<u8>, u64)> = Vec::new();
    let mut stack = vec![(tr.root_off, 0usize)];
    let mut guard = 0;
    while let Some((off, depth)) = stack.pop() {
        guard += 1;
        if guard > 100_000 {
            return viol("C09", "big.index-walk", "index walk does not terminate".into());
        }
        let b = match read_block_at(&d, off, depth) {
            Ok(b) => b,
            Err(e) => return viol("C09", "big.index-block", format!("index block at depth {}: {}", depth, e)),
        };
        let mut children = Vec::new();
        for (_, k, v) in &b.entries {
            if v.len() != 8 {
                return viol("C09", "big.index-value", format!("index value of {} bytes at depth {}", v.len(), depth));
            }
            let mut a = [0u8; 8];
            a.copy_from_slice(v);
            children.push((k.clone(), u64::from_be_bytes(a)));
        }
        if depth == levels {
            got.extend(children);
        } else {
            for (_, o) in children.into_iter().rev() {
                stack.push((o, depth + 1));
            }
        }
    }
    if got != expected {
        let i = got.iter().zip(expected.iter()).position(|(a, b)| a != b).unwrap_or(got.len().min(expected.len()));
        return viol(
            "C09",
            "big.index-offsets",
            format!(
                "index entry #{} is {:?} but the block holding that key was observed to start at {:?} ({} vs {} entries)",
                i,
                got.get(i).map(|(k, o)| (k.clone(), *o)),
                expected.get(i).map(|(k, o)| (k.clone(), *o)),
                got.len(),
                expected.len()
            ),
        );
    }
    st.c.inc("runs.file_beyond_4GiB_index_walked");
    st.c.add("index_entries_beyond_4GiB", expected.iter().filter(|(_, o)| *o >= (1 << 32)).count() as u64);
    let h = fnv1a(format!("{:?}{:?}", c.spec.knobs, big).as_bytes());
    st.distinct.insert(h);
    st.nontrivial.insert(h);
    None
}

/// C02 on a file beyond 4 GiB: seeks whose answers lie behind the 4 GiB line, through the real
/// reader over the sparse source, against the model.
pub fn check_big_seeks(case: &Case, st: &mut Stats) -> Verdict {
    let Case::File(c) = case else { return viol("C02", "harness", "wrong case kind".into()) };
    let Some(big) = &c.big else { return viol("C02", "harness", "not a big case".into()) };
    let env = crate::env::Env::new(c.env.clone());
    let mut tx = crate::exec::Tx::new(env.clone());
    let mut out = None;
    crate::exec::guarded(&mut tx, |tx| out = crate::exec::exec_big_write(tx, &c.spec.knobs, big.fillers, big.filler_len, big.small));
    if let Some(r) = tx.recs.iter().find(|r| r.res.is_err() || r.res.is_panic()) {
        return viol("C02", &format!("big.write.{}", r.op), format!("{} -> {}", r.op, r.res.short()));
    }
    let Some(out) = out else { return viol("C02", "big.harness", "no output".into()) };
    let keys = out.keys.clone();
    let sf = out.small_from;
    let n = keys.len();
    let entry = |i: usize| Res::Entry(keys[i].clone(), keys[i].clone());
    let mut rng = Rng::new(fnv1a(format!("{:?}", big).as_bytes()));
    let mut steps: Vec<(Op, Res)> = Vec::new();
    steps.push((Op::Last, entry(n - 1)));
    for back in 1..=(n - sf - 1).min(5) {
        steps.push((Op::Prev, entry(n - 1 - back)));
    }
    for _ in 0..60 {
        let i = rng.urange(sf, n - 1);
        let k = keys[i].clone();
        let mut succ = k.clone();
        succ.push(0);
        steps.push((Op::Eq(B(k.clone())), entry(i)));
        steps.push((Op::Ge(B(k.clone())), entry(i)));
        steps.push((Op::Le(B(k.clone())), entry(i)));
        steps.push((Op::Le(B(succ.clone())), entry(i)));
        steps.push((Op::Eq(B(succ.clone())), Res::None));
        if i + 1 < n {
            steps.push((Op::Ge(B(succ)), entry(i + 1)));
        }
        if i > sf {
            steps.push((Op::Ge(B(gen::pred(&k))), entry(i)));
            steps.push((Op::Le(B(gen::pred(&k))), entry(i - 1)));
        }
    }
    let data = out.data.clone();
    let mut tx2 = crate::exec::Tx::new(env.clone());
    let steps2 = steps.clone();
    crate::exec::guarded(&mut tx2, |tx| {
        let src = tx.env.new_sparse_source(data);
        let Some(r) = tx.call("Reader::new", move || match grenad::Reader::new(src) {
            Ok(r) => {
                let l = r.len();
                Ok((r, Res::Count(l)))
            }
            Err(e) => Err(crate::exec::desc_err(&e)),
        }) else {
            return;
        };
        let Some(mut cur) = tx.call("Reader::into_cursor", move || match r.into_cursor() {
            Ok(c) => Ok((c, Res::Unit)),
            Err(e) => Err(crate::exec::desc_err(&e)),
        }) else {
            return;
        };
        for (op, _) in &steps2 {
            if !matches!(op, Op::Prev | Op::Next) {
                cur.reset();
            }
            if crate::exec::cur_op(tx, &mut cur, op).is_none() {
                return;
            }
        }
    });
    st.public_calls += tx2.recs.len() as u64;
    st.io_calls += env.io_calls();
    let mut exp: Vec<Res> = vec![Res::Count(n as u64), Res::Unit];
    exp.extend(steps.iter().map(|(_, r)| r.clone()));
    for (i, r) in tx2.recs.iter().enumerate() {
        let want = exp.get(i);
        if want != Some(&r.res) {
            return viol(
                "C02",
                &format!("big.result.{}", r.op),
                format!(
                    "file of {} bytes, call #{} {}: returned {} but the model says {}",
                    out.data.borrow().len,
                    i,
                    r.op,
                    r.res.short(),
                    want.map(|w| w.short()).unwrap_or_default()
                ),
            );
        }
    }
    if tx2.recs.len() != exp.len() {
        return viol("C02", "big.missing-call", format!("{} of {} calls executed", tx2.recs.len(), exp.len()));
    }
    st.c.inc("runs.file_beyond_4GiB_seeks");
    st.c.add("seeks_answered_from_beyond_4GiB", steps.len() as u64);
    let h = fnv1a(format!("{:?}{:?}s", c.spec.knobs, big).as_bytes());
    st.distinct.insert(h);
    st.nontrivial.insert(h);
    None
}
