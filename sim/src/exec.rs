//! Executors: drive the REAL grenad code through its public API inside the simulated
//! environment and record a transcript of every public call and its result.

use std::convert::Infallible;
use std::io::{self, Cursor};
use std::num::NonZeroUsize;
use std::ops::Bound;
use std::panic::{catch_unwind, AssertUnwindSafe};
use std::sync::Mutex;

use grenad::{
    ChunkCreator, CompressionType, CursorVec, FileVersion, MergerBuilder, Reader, ReaderCursor, SortAlgorithm,
    SorterBuilder, TempFileChunk, Writer, WriterBuilder,
};

use crate::case::*;
use crate::env::{Env, IoKind, SimFault, SimFile, SimMergeFault};

pub static LAST_PANIC: Mutex<String> = Mutex::new(String::new());
pub static IN_GUARD: std::sync::atomic::AtomicUsize = std::sync::atomic::AtomicUsize::new(0);
/// C17: arm a null return of the allocator for the sorter's next doubling at this insert index.
pub static NULL_AT: std::sync::atomic::AtomicUsize = std::sync::atomic::AtomicUsize::new(usize::MAX);

pub fn install_panic_hook() {
    std::panic::set_hook(Box::new(|info| {
        let msg = if let Some(s) = info.payload().downcast_ref::<&str>() {
            s.to_string()
        } else if let Some(s) = info.payload().downcast_ref::<String>() {
            s.clone()
        } else {
            "<non-string panic>".to_string()
        };
        let loc = info.location().map(|l| format!("{}:{}", l.file(), l.line())).unwrap_or_default();
        if IN_GUARD.load(std::sync::atomic::Ordering::SeqCst) == 0 {
            eprintln!("HARNESS PANIC (outside any guarded call): {} @ {}", msg, loc);
        }
        if let Ok(mut g) = LAST_PANIC.lock() {
            *g = format!("{} @ {}", msg, loc);
        }
    }));
}

pub fn take_panic() -> String {
    LAST_PANIC.lock().map(|mut g| std::mem::take(&mut *g)).unwrap_or_default()
}

#[derive(Clone, Debug, PartialEq, Eq)]
pub struct ErrDesc {
    /// "io::Error", "Io", "Merge", "InvalidCompressionType", "InvalidFormatVersion"
    pub class: &'static str,
    pub io_kind: Option<io::ErrorKind>,
    /// payload of an injected I/O fault, when the path preserved it
    pub sim_k: Option<u64>,
    pub merge_k: Option<u64>,
    pub crash: bool,
    pub text: String,
}

/// Finds the injected fault anywhere in the error's source chain (an error that wraps the
/// original one still carries it).
fn find_sim_fault(e: &(dyn std::error::Error + 'static), depth: usize) -> Option<u64> {
    if let Some(f) = e.downcast_ref::<SimFault>() {
        return Some(f.k);
    }
    if depth > 8 {
        return None;
    }
    if let Some(io) = e.downcast_ref::<io::Error>() {
        if let Some(inner) = io.get_ref() {
            if let Some(k) = find_sim_fault(inner, depth + 1) {
                return Some(k);
            }
        }
    }
    e.source().and_then(|s| find_sim_fault(s, depth + 1))
}

pub fn desc_io(e: &io::Error, class: &'static str) -> ErrDesc {
    let sim_k = e.get_ref().and_then(|r| find_sim_fault(r, 0));
    let crash = e.get_ref().map(|r| r.is::<crate::env::SimCrash>()).unwrap_or(false);
    ErrDesc { class, io_kind: Some(e.kind()), sim_k, merge_k: None, crash, text: e.to_string() }
}

pub trait MergeErrInfo {
    fn k(&self) -> Option<u64>;
}
impl MergeErrInfo for SimMergeFault {
    fn k(&self) -> Option<u64> {
        Some(self.k)
    }
}
impl MergeErrInfo for Infallible {
    fn k(&self) -> Option<u64> {
        None
    }
}

pub fn desc_err<U: MergeErrInfo>(e: &grenad::Error<U>) -> ErrDesc {
    match e {
        grenad::Error::Io(e) => desc_io(e, "Io"),
        grenad::Error::Merge(u) => ErrDesc {
            class: "Merge",
            io_kind: None,
            sim_k: None,
            merge_k: u.k(),
            crash: false,
            text: "merge error".into(),
        },
        grenad::Error::InvalidCompressionType => ErrDesc {
            class: "InvalidCompressionType",
            io_kind: None,
            sim_k: None,
            merge_k: None,
            crash: false,
            text: "invalid compression type".into(),
        },
        grenad::Error::InvalidFormatVersion => ErrDesc {
            class: "InvalidFormatVersion",
            io_kind: None,
            sim_k: None,
            merge_k: None,
            crash: false,
            text: "invalid format version".into(),
        },
    }
}

#[derive(Clone, Debug, PartialEq, Eq)]
pub enum Res {
    Unit,
    None,
    Entry(Vec<u8>, Vec<u8>),
    Meta { len: u64, codec: u8, version: u8 },
    Bytes(Vec<u8>),
    Count(u64),
    Err(ErrDesc),
    Panic(String),
}

impl Res {
    pub fn short(&self) -> String {
        fn hx(b: &[u8]) -> String {
            let mut s = String::new();
            for x in b.iter().take(24) {
                s.push_str(&format!("{:02x}", x));
            }
            if b.len() > 24 {
                s.push_str(&format!("..({}B)", b.len()));
            }
            s
        }
        match self {
            Res::Unit => "()".into(),
            Res::None => "None".into(),
            Res::Entry(k, v) => format!("Some({}, {})", hx(k), hx(v)),
            Res::Meta { len, codec, version } => format!("Meta(len={},codec={},v{})", len, codec, version + 1),
            Res::Bytes(b) => format!("Bytes({}B,{:016x})", b.len(), crate::rng::fnv1a(b)),
            Res::Count(c) => format!("Count({})", c),
            Res::Err(e) => format!("Err({}:{:?}:{})", e.class, e.io_kind, e.text),
            Res::Panic(m) => format!("PANIC({})", m),
        }
    }
    pub fn is_err(&self) -> bool {
        matches!(self, Res::Err(_))
    }
    pub fn is_panic(&self) -> bool {
        matches!(self, Res::Panic(_))
    }
}

#[derive(Clone, Debug, PartialEq, Eq)]
pub struct Rec {
    pub op: String,
    pub res: Res,
    pub clock_before: u64,
    pub clock_after: u64,
}

pub struct Tx {
    pub env: Env,
    pub recs: Vec<Rec>,
    pub stop: bool,
    /// per-op I/O events when env.record is on: (record index, events)
    pub io: Vec<Vec<crate::env::IoEvent>>,
    pub keep_io: bool,
    /// lean: do not retain entry contents nor one record per repeated successful call
    pub lean: bool,
    /// transient-fault families: an Err does not end the run (a panic still does)
    pub continue_after_err: bool,
}

impl Tx {
    pub fn new(env: Env) -> Tx {
        Tx { env, recs: Vec::new(), stop: false, io: Vec::new(), keep_io: false, lean: false, continue_after_err: false }
    }

    /// Runs one public call under catch_unwind and records its result.
    pub fn call<T>(&mut self, op: &str, f: impl FnOnce() -> Result<(T, Res), ErrDesc>) -> Option<T> {
        if self.stop {
            return None;
        }
        self.env.set_op(op);
        let before = self.env.clock();
        if self.keep_io {
            self.env.take_events();
        }
        let r = catch_unwind(AssertUnwindSafe(f));
        let after = self.env.clock();
        let (out, res) = match r {
            Ok(Ok((t, res))) => (Some(t), res),
            Ok(Err(e)) => {
                if !self.continue_after_err {
                    self.stop = true;
                }
                (None, Res::Err(e))
            }
            Err(_) => {
                self.stop = true;
                (None, Res::Panic(take_panic()))
            }
        };
        if self.keep_io {
            self.io.push(self.env.take_events());
        }
        if self.lean && !self.stop {
            if let Some(last) = self.recs.last_mut() {
                if last.op == op {
                    let res = match res {
                        Res::Entry(k, v) => Res::Count(crate::rng::fnv1a(&k) ^ crate::rng::fnv1a(&v).rotate_left(17)),
                        r => r,
                    };
                    last.res = res;
                    last.clock_after = after;
                    return out;
                }
            }
        }
        self.recs.push(Rec { op: op.to_string(), res, clock_before: before, clock_after: after });
        out
    }

    pub fn note(&mut self, op: &str, res: Res) {
        let c = self.env.clock();
        if self.keep_io {
            self.io.push(Vec::new());
        }
        self.recs.push(Rec { op: op.to_string(), res, clock_before: c, clock_after: c });
    }
}

pub fn codec_of(c: u8) -> CompressionType {
    match c {
        0 => CompressionType::None,
        1 => CompressionType::SnappyPre05,
        2 => CompressionType::Zlib,
        3 => CompressionType::Lz4,
        4 => CompressionType::Zstd,
        _ => CompressionType::Snappy,
    }
}

pub fn codec_id(c: CompressionType) -> u8 {
    c as u8
}

pub fn builder_of(k: &Knobs) -> WriterBuilder {
    let mut b = Writer::builder();
    b.compression_type(codec_of(k.codec));
    b.compression_level(k.level);
    if let Some(bs) = k.block_size {
        b.block_size(bs);
    }
    if let Some(i) = k.interval {
        b.index_key_interval(NonZeroUsize::new(i.max(1)).unwrap());
    }
    b.index_levels(k.levels);
    b
}

fn entry_res(e: Option<(&[u8], &[u8])>) -> Res {
    match e {
        Some((k, v)) => Res::Entry(k.to_vec(), v.to_vec()),
        None => Res::None,
    }
}

/// Setup helper (not under test, no simulated I/O): write a file with the real writer to a Vec.
pub fn write_plain(spec: &FileSpec) -> Result<Vec<u8>, String> {
    let entries = spec.entries.materialize();
    IN_GUARD.fetch_add(1, std::sync::atomic::Ordering::SeqCst);
    let r = catch_unwind(AssertUnwindSafe(|| -> io::Result<Vec<u8>> {
        let mut w = builder_of(&spec.knobs).memory();
        for (k, v) in &entries {
            w.insert(k, v)?;
        }
        w.into_inner()
    }));
    IN_GUARD.fetch_sub(1, std::sync::atomic::Ordering::SeqCst);
    match r {
        Ok(Ok(b)) => Ok(b),
        Ok(Err(e)) => Err(format!("setup write failed: {}", e)),
        Err(_) => Err(format!("setup write panicked: {}", take_panic())),
    }
}

/// Replace the 22-byte V2 trailer of a levels=0 file by a 21-byte V1 trailer built from the
/// statement of C10.
pub fn to_v1(bytes: &[u8]) -> Option<Vec<u8>> {
    if bytes.len() < 22 {
        return None;
    }
    let t = &bytes[bytes.len() - 22..];
    if t[17] != 0 {
        return None; // levels must be 0
    }
    let mut out = bytes[..bytes.len() - 22].to_vec();
    out.extend_from_slice(&t[0..8]); // root offset u64 LE
    out.push(t[8]); // codec
    out.extend_from_slice(&t[9..17]); // count u64 LE
    out.extend_from_slice(&0x7632_4D4Cu32.to_le_bytes());
    Some(out)
}

// -----------------------------------------------------------------------------------------
// W-FILE

fn write_phase<W: io::Write>(
    tx: &mut Tx,
    mut w: Writer<W>,
    entries: &[(Vec<u8>, Vec<u8>)],
    fin: u8,
) -> Option<Option<W>> {
    for (k, v) in entries {
        tx.call("Writer::insert", || match w.insert(k, v) {
            Ok(()) => Ok(((), Res::Unit)),
            Err(e) => Err(desc_io(&e, "io::Error")),
        })?;
    }
    if fin == 1 {
        tx.call("Writer::finish", move || match w.finish() {
            Ok(()) => Ok((None, Res::Unit)),
            Err(e) => Err(desc_io(&e, "io::Error")),
        })
    } else {
        tx.call("Writer::into_inner", move || match w.into_inner() {
            Ok(inner) => Ok((Some(inner), Res::Unit)),
            Err(e) => Err(desc_io(&e, "io::Error")),
        })
    }
}

/// Writes the entries through the simulated sink; returns the bytes the sink holds (also on failure).
pub fn exec_write(tx: &mut Tx, spec: &FileSpec) -> Vec<u8> {
    let entries = spec.entries.materialize();
    let k = &spec.knobs;
    if k.ctor == 2 || k.ctor == 3 {
        let w = if k.ctor == 3 { Writer::memory() } else { builder_of(k).memory() };
        match write_phase(tx, w, &entries, 0) {
            Some(Some(v)) => v,
            _ => Vec::new(),
        }
    } else {
        let sink = tx.env.new_sink();
        let data = sink.data_rc();
        let w = if k.ctor == 1 { Writer::new(sink) } else { builder_of(k).build(sink) };
        let _ = write_phase(tx, w, &entries, k.fin);
        let b = data.borrow().clone();
        b
    }
}

pub fn open_reader(tx: &mut Tx, bytes: Vec<u8>) -> Option<Reader<SimFile>> {
    let src = tx.env.new_source(bytes);
    tx.call("Reader::new", move || match Reader::new(src) {
        Ok(r) => {
            let meta = Res::Meta {
                len: r.len(),
                codec: codec_id(r.compression_type()),
                version: match r.file_version() {
                    FileVersion::FormatV1 => 0,
                    FileVersion::FormatV2 => 1,
                },
            };
            Ok((r, meta))
        }
        Err(e) => Err(desc_err(&e)),
    })
}

pub fn open_cursor(tx: &mut Tx, bytes: Vec<u8>) -> Option<ReaderCursor<SimFile>> {
    let r = open_reader(tx, bytes)?;
    tx.call("Reader::into_cursor", move || match r.into_cursor() {
        Ok(c) => Ok((c, Res::Unit)),
        Err(e) => Err(desc_err(&e)),
    })
}

pub fn cur_op(tx: &mut Tx, c: &mut ReaderCursor<SimFile>, op: &Op) -> Option<()> {
    macro_rules! mv {
        ($name:expr, $e:expr) => {
            tx.call($name, || match $e {
                Ok(x) => Ok(((), entry_res(x))),
                Err(e) => Err(desc_err(&e)),
            })
        };
    }
    match op {
        Op::First => mv!("move_on_first", c.move_on_first()),
        Op::Last => mv!("move_on_last", c.move_on_last()),
        Op::Next => mv!("move_on_next", c.move_on_next()),
        Op::Prev => mv!("move_on_prev", c.move_on_prev()),
        Op::Ge(q) => mv!("move_on_key_greater_than_or_equal_to", c.move_on_key_greater_than_or_equal_to(&q.0)),
        Op::Le(q) => mv!("move_on_key_lower_than_or_equal_to", c.move_on_key_lower_than_or_equal_to(&q.0)),
        Op::Eq(q) => mv!("move_on_key_equal_to", c.move_on_key_equal_to(&q.0)),
        Op::Reset => tx.call("reset", || {
            c.reset();
            Ok(((), Res::Unit))
        }),
        Op::Current => tx.call("current", || Ok(((), entry_res(c.current())))),
        Op::NextN(n) => {
            for _ in 0..*n {
                if mv!("move_on_next", c.move_on_next()).is_none() && tx.stop {
                    return None;
                }
            }
            Some(())
        }
        Op::PrevN(n) => {
            for _ in 0..*n {
                if mv!("move_on_prev", c.move_on_prev()).is_none() && tx.stop {
                    return None;
                }
            }
            Some(())
        }
        Op::CloneFrom => Some(()),
    }
}

/// C01-style: write through the sink, reopen through a source, scan both ways.
pub fn exec_file(tx: &mut Tx, case: &FileCase) {
    let mut bytes = exec_write(tx, &case.spec);
    if tx.stop {
        tx.note("sink.bytes", Res::Bytes(bytes));
        return;
    }
    if case.v1 {
        if let Some(b) = to_v1(&bytes) {
            bytes = b;
        }
    }
    tx.note("sink.bytes", Res::Bytes(bytes.clone()));
    let n = case.spec.entries.len();
    let Some(mut c) = open_cursor(tx, bytes.clone()) else { return };
    for _ in 0..n + 2 {
        if cur_op(tx, &mut c, &Op::Next).is_none() {
            return;
        }
        if matches!(tx.recs.last().map(|r| &r.res), Some(Res::None)) {
            break;
        }
    }
    let Some(mut c2) = open_cursor(tx, bytes) else { return };
    for _ in 0..n + 2 {
        if cur_op(tx, &mut c2, &Op::Prev).is_none() {
            return;
        }
        if matches!(tx.recs.last().map(|r| &r.res), Some(Res::None)) {
            break;
        }
    }
}

// -----------------------------------------------------------------------------------------
// W-CURSOR

pub fn file_bytes_for(spec: &FileSpec, v1: bool) -> Result<Vec<u8>, String> {
    let b = write_plain(spec)?;
    if v1 {
        to_v1(&b).ok_or_else(|| "cannot build V1 twin (levels != 0)".to_string())
    } else {
        Ok(b)
    }
}

/// Moves the root index block (and the trailer) behind a hole: returns (bytes, hole offset) with the
/// trailer's root offset rewritten; None if the file has no room for that (too short).
pub fn make_sparse(bytes: &[u8], hole: u64) -> Option<(Vec<u8>, u64)> {
    let t = crate::decode::parse_trailer(bytes).ok()?;
    let root = t.root_off;
    let tl = t.len;
    if (root as usize) + tl > bytes.len() {
        return None;
    }
    let mut out = bytes.to_vec();
    let pos = out.len() - tl;
    out[pos..pos + 8].copy_from_slice(&(root + hole).to_le_bytes());
    Some((out, root))
}

pub fn open_cursor_sparse(tx: &mut Tx, bytes: Vec<u8>, hole: Option<u64>) -> Option<ReaderCursor<SimFile>> {
    let Some(h) = hole else { return open_cursor(tx, bytes) };
    let Some((b, at)) = make_sparse(&bytes, h) else { return open_cursor(tx, bytes) };
    let src = tx.env.new_holed_source(b, at, h);
    let r = tx.call("Reader::new", move || match Reader::new(src) {
        Ok(r) => {
            let meta = Res::Meta {
                len: r.len(),
                codec: codec_id(r.compression_type()),
                version: match r.file_version() {
                    FileVersion::FormatV1 => 0,
                    FileVersion::FormatV2 => 1,
                },
            };
            Ok((r, meta))
        }
        Err(e) => Err(desc_err(&e)),
    })?;
    tx.call("Reader::into_cursor", move || match r.into_cursor() {
        Ok(c) => Ok((c, Res::Unit)),
        Err(e) => Err(desc_err(&e)),
    })
}

pub fn exec_cursor(tx: &mut Tx, case: &CursorCase, bytes: Vec<u8>, fp: &mut dyn FnMut(usize, &Op, &ReaderCursor<SimFile>)) {
    let Some(c0) = open_cursor_sparse(tx, bytes, case.sparse_hole) else { return };
    let mut cursors: Vec<ReaderCursor<SimFile>> = vec![c0];
    for (i, st) in case.steps.iter().enumerate() {
        let idx = st.cur as usize % cursors.len();
        if case.fresh_each {
            // fresh cursor semantics through reset()
            if tx
                .call("reset", || {
                    cursors[idx].reset();
                    Ok(((), Res::Unit))
                })
                .is_none()
            {
                return;
            }
        }
        match &st.op {
            Op::CloneFrom => {
                let cl = tx.call("clone", || Ok((cursors[idx].clone(), Res::Unit)));
                match cl {
                    Some(cl) => {
                        if cursors.len() < 4 {
                            cursors.push(cl)
                        } else {
                            let last = cursors.len() - 1;
                            cursors[last] = cl;
                        }
                    }
                    None => return,
                }
            }
            op => {
                if cur_op(tx, &mut cursors[idx], op).is_none() && tx.stop {
                    return;
                }
            }
        }
        fp(i, &st.op, &cursors[idx]);
    }
}

// -----------------------------------------------------------------------------------------
// W-ITER

fn to_bound(b: &Bnd) -> Bound<Vec<u8>> {
    match b {
        Bnd::Unbounded => Bound::Unbounded,
        Bnd::Included(x) => Bound::Included(x.0.clone()),
        Bnd::Excluded(x) => Bound::Excluded(x.0.clone()),
    }
}

pub fn exec_iter(tx: &mut Tx, case: &IterCase, bytes: Vec<u8>) {
    let n = case.spec.entries.len();
    let Some(reader) = open_reader(tx, bytes) else { return };
    if case.interleave {
        type Next = Box<dyn FnMut() -> Result<Option<(Vec<u8>, Vec<u8>)>, grenad::Error>>;
        fn own(x: Option<(&[u8], &[u8])>) -> Option<(Vec<u8>, Vec<u8>)> {
            x.map(|(k, v)| (k.to_vec(), v.to_vec()))
        }
        for pair in case.queries.chunks(2) {
            let mut its: Vec<Next> = Vec::new();
            for q in pair {
                let r = reader.clone();
                let (name, made): (&str, Option<Next>) = match q {
                    Query::Prefix { prefix, rev: false } => (
                        "into_prefix_iter",
                        tx.call("into_prefix_iter", || match r.into_prefix_iter(prefix.0.clone()) {
                            Ok(mut it) => Ok((Box::new(move || it.next().map(own)) as Next, Res::Unit)),
                            Err(e) => Err(desc_err(&e)),
                        }),
                    ),
                    Query::Prefix { prefix, rev: true } => (
                        "into_rev_prefix_iter",
                        tx.call("into_rev_prefix_iter", || match r.into_rev_prefix_iter(prefix.0.clone()) {
                            Ok(mut it) => Ok((Box::new(move || it.next().map(own)) as Next, Res::Unit)),
                            Err(e) => Err(desc_err(&e)),
                        }),
                    ),
                    Query::Range { start, end, rev: false, .. } => (
                        "into_range_iter",
                        tx.call("into_range_iter", || match r.into_range_iter((to_bound(start), to_bound(end))) {
                            Ok(mut it) => Ok((Box::new(move || it.next().map(own)) as Next, Res::Unit)),
                            Err(e) => Err(desc_err(&e)),
                        }),
                    ),
                    Query::Range { start, end, rev: true, .. } => (
                        "into_rev_range_iter",
                        tx.call("into_rev_range_iter", || match r.into_rev_range_iter((to_bound(start), to_bound(end))) {
                            Ok(mut it) => Ok((Box::new(move || it.next().map(own)) as Next, Res::Unit)),
                            Err(e) => Err(desc_err(&e)),
                        }),
                    ),
                };
                let _ = name;
                match made {
                    Some(it) => its.push(it),
                    None => return,
                }
            }
            let mut done = vec![false; its.len()];
            let mut yielded = 0usize;
            while done.iter().any(|d| !*d) {
                for j in 0..its.len() {
                    if done[j] {
                        continue;
                    }
                    let it = &mut its[j];
                    let mut got_none = false;
                    let r = tx.call("iter.next", || match it() {
                        Ok(x) => {
                            got_none = x.is_none();
                            Ok(((), match x {
                                Some((k, v)) => Res::Entry(k, v),
                                None => Res::None,
                            }))
                        }
                        Err(e) => Err(desc_err(&e)),
                    });
                    if r.is_none() {
                        return;
                    }
                    if got_none {
                        done[j] = true;
                    }
                    yielded += 1;
                    if yielded > 2 * n + 4 {
                        return;
                    }
                }
            }
        }
        return;
    }
    for q in &case.queries {
        let r = reader.clone();
        macro_rules! drain {
            ($mk:expr, $mkname:expr) => {{
                let it = tx.call($mkname, || match $mk {
                    Ok(it) => Ok((it, Res::Unit)),
                    Err(e) => Err(desc_err(&e)),
                });
                let Some(mut it) = it else { return };
                let mut yielded = 0usize;
                loop {
                    let mut got_none = false;
                    let r = tx.call("iter.next", || match it.next() {
                        Ok(x) => {
                            got_none = x.is_none();
                            Ok(((), entry_res(x)))
                        }
                        Err(e) => Err(desc_err(&e)),
                    });
                    if r.is_none() {
                        if tx.stop {
                            return;
                        }
                        yielded += 1;
                        if yielded > n + 1 {
                            break;
                        }
                        continue;
                    }
                    if got_none {
                        break;
                    }
                    yielded += 1;
                    if yielded > n + 1 {
                        break;
                    }
                }
            }};
        }
        match q {
            Query::Prefix { prefix, rev: false } => drain!(r.into_prefix_iter(prefix.0.clone()), "into_prefix_iter"),
            Query::Prefix { prefix, rev: true } => {
                drain!(r.into_rev_prefix_iter(prefix.0.clone()), "into_rev_prefix_iter")
            }
            Query::Range { start, end, rev, spelling } => {
                let sb = to_bound(start);
                let eb = to_bound(end);
                // Use the native range spellings when the bounds allow it.
                let sp = *spelling;
                match (&sb, &eb, sp, *rev) {
                    (Bound::Included(a), Bound::Excluded(b), 1, false) => {
                        drain!(r.into_range_iter(a.clone()..b.clone()), "into_range_iter")
                    }
                    (Bound::Included(a), Bound::Excluded(b), 1, true) => {
                        drain!(r.into_rev_range_iter(a.clone()..b.clone()), "into_rev_range_iter")
                    }
                    (Bound::Included(a), Bound::Included(b), 1, false) => {
                        drain!(r.into_range_iter(a.clone()..=b.clone()), "into_range_iter")
                    }
                    (Bound::Included(a), Bound::Included(b), 1, true) => {
                        drain!(r.into_rev_range_iter(a.clone()..=b.clone()), "into_rev_range_iter")
                    }
                    (Bound::Unbounded, Bound::Unbounded, 1, false) => {
                        drain!(r.into_range_iter::<_, Vec<u8>>(..), "into_range_iter")
                    }
                    (Bound::Unbounded, Bound::Unbounded, 1, true) => {
                        drain!(r.into_rev_range_iter::<_, Vec<u8>>(..), "into_rev_range_iter")
                    }
                    (Bound::Included(a), Bound::Unbounded, 1, false) => {
                        drain!(r.into_range_iter(a.clone()..), "into_range_iter")
                    }
                    (Bound::Included(a), Bound::Unbounded, 1, true) => {
                        drain!(r.into_rev_range_iter(a.clone()..), "into_rev_range_iter")
                    }
                    (Bound::Unbounded, Bound::Excluded(b), 1, false) => {
                        drain!(r.into_range_iter(..b.clone()), "into_range_iter")
                    }
                    (Bound::Unbounded, Bound::Excluded(b), 1, true) => {
                        drain!(r.into_rev_range_iter(..b.clone()), "into_rev_range_iter")
                    }
                    (Bound::Unbounded, Bound::Included(b), 1, false) => {
                        drain!(r.into_range_iter(..=b.clone()), "into_range_iter")
                    }
                    (Bound::Unbounded, Bound::Included(b), 1, true) => {
                        drain!(r.into_rev_range_iter(..=b.clone()), "into_rev_range_iter")
                    }
                    (_, _, _, false) => drain!(r.into_range_iter((sb.clone(), eb.clone())), "into_range_iter"),
                    (_, _, _, true) => drain!(r.into_rev_range_iter((sb.clone(), eb.clone())), "into_rev_range_iter"),
                }
            }
        }
    }
}

// -----------------------------------------------------------------------------------------
// W-MERGE

pub fn exec_merge(tx: &mut Tx, case: &MergeCase, files: &[Vec<u8>]) {
    let mut cursors = Vec::new();
    for b in files {
        match open_cursor(tx, b.clone()) {
            Some(c) => cursors.push(c),
            None => return,
        }
    }
    let mf = tx.env.merge_fn(case.mf);
    let mut builder = MergerBuilder::new(mf);
    let mut i = 0;
    let mut cursors: Vec<Option<ReaderCursor<SimFile>>> = cursors.into_iter().map(Some).collect();
    while i < cursors.len() {
        let how = case.attach.get(i).copied().unwrap_or(0);
        match how {
            0 => {
                builder = builder.add(cursors[i].take().unwrap());
                i += 1;
            }
            1 => {
                builder.push(cursors[i].take().unwrap());
                i += 1;
            }
            _ => {
                let mut group = Vec::new();
                while i < cursors.len() && case.attach.get(i).copied().unwrap_or(0) >= 2 {
                    group.push(cursors[i].take().unwrap());
                    i += 1;
                }
                builder.extend(group);
            }
        }
    }
    let merger = builder.build();
    let total: usize = case.sources.iter().map(|s| s.entries.len()).sum();
    if case.out_mode == 0 {
        let it = tx.call("Merger::into_stream_merger_iter", move || match merger.into_stream_merger_iter() {
            Ok(it) => Ok((it, Res::Unit)),
            Err(e) => Err(desc_err(&e)),
        });
        let Some(mut it) = it else { return };
        let mut yielded = 0;
        loop {
            let mut got_none = false;
            let r = tx.call("MergerIter::next", || match it.next() {
                Ok(x) => {
                    got_none = x.is_none();
                    Ok(((), entry_res(x)))
                }
                Err(e) => Err(desc_err(&e)),
            });
            if r.is_none() {
                // a caller may keep calling `next` after an Err (transient-fault families)
                if tx.stop {
                    return;
                }
                yielded += 1;
                if yielded > total + 1 {
                    break;
                }
                continue;
            }
            if got_none {
                break;
            }
            yielded += 1;
            if yielded > total + 1 {
                break;
            }
        }
    } else {
        let sink = tx.env.new_sink();
        let data = sink.data_rc();
        let mut w = builder_of(&case.out_knobs).build(sink);
        if tx
            .call("Merger::write_into_stream_writer", || match merger.write_into_stream_writer(&mut w) {
                Ok(()) => Ok(((), Res::Unit)),
                Err(e) => Err(desc_err(&e)),
            })
            .is_none()
        {
            return;
        }
        if tx
            .call("Writer::finish", move || match w.finish() {
                Ok(()) => Ok(((), Res::Unit)),
                Err(e) => Err(desc_io(&e, "io::Error")),
            })
            .is_none()
        {
            return;
        }
        let bytes = data.borrow().clone();
        tx.note("sink.bytes", Res::Bytes(bytes.clone()));
        let Some(mut c) = open_cursor(tx, bytes) else { return };
        for _ in 0..total + 2 {
            if cur_op(tx, &mut c, &Op::Next).is_none() {
                return;
            }
            if matches!(tx.recs.last().map(|r| &r.res), Some(Res::None)) {
                break;
            }
        }
    }
}

// -----------------------------------------------------------------------------------------
// W-SORT

pub struct SortObs {
    pub probes: Vec<(usize, usize, usize, usize)>,
    pub max_buffer: usize,
    pub reallocs: u64,
    pub exact_fit: u64,
    pub entry_gt_buffer: u64,
}

fn sorter_builder<MF, CC>(mf: MF, cc: CC, k: &SortKnobs) -> SorterBuilder<MF, CC> {
    let mut b = SorterBuilder::new(mf);
    if let Some(req) = k.threshold_req {
        b.dump_threshold(req);
    }
    if let Some(raw) = k.raw_threshold {
        b.verif_raw_dump_threshold(raw);
    }
    b.allow_realloc(k.allow_realloc);
    if let Some(m) = k.max_nb_chunks {
        b.max_nb_chunks(m);
    }
    if k.unstable {
        b.sort_algorithm(SortAlgorithm::Unstable);
    } else {
        b.sort_algorithm(SortAlgorithm::Stable);
    }
    b.sort_in_parallel(k.parallel);
    if let Some(c) = k.chunk_codec {
        b.chunk_compression_type(codec_of(c));
    }
    if let Some(l) = k.chunk_level {
        b.chunk_compression_level(l);
    }
    if let Some(bs) = k.block_size {
        b.block_size(bs);
    }
    if let Some(i) = k.interval {
        b.index_key_interval(NonZeroUsize::new(i.max(1)).unwrap());
    }
    if let Some(l) = k.levels {
        b.index_levels(l);
    }
    b.chunk_creator(cc)
}

fn run_sort<CC>(tx: &mut Tx, case: &SortCase, knobs: &SortKnobs, cc: CC, obs: &mut SortObs)
where
    CC: ChunkCreator,
    CC::Chunk: 'static,
{
    let env = tx.env.clone();
    let mf = env.merge_fn(case.mf);
    let sorter = tx.call("SorterBuilder::build", move || {
        // the setters run inside the recorded call: their own size arithmetic is judged too
        let builder = sorter_builder(mf, cc, knobs);
        let s = match knobs.init_cap {
            Some(c) => builder.verif_build_with_initial_capacity(c),
            None => builder.build(),
        };
        Ok((s, Res::Unit))
    });
    let Some(mut sorter) = sorter else { return };
    let mut last_buf = sorter.verif_probe().0;
    obs.max_buffer = last_buf;
    let mut failed = false;
    let mut total = 0usize;
    case.inserts.for_each(|k, v| {
        total += 1;
        let before = sorter.verif_probe();
        let sz = 16 + k.len() + v.len();
        let remaining = before.0 - before.1 - before.2 * 16;
        if remaining == sz {
            obs.exact_fit += 1;
        }
        if sz > before.0 {
            obs.entry_gt_buffer += 1;
        }
        let arm = NULL_AT.load(std::sync::atomic::Ordering::Relaxed) == total - 1;
        // only when this insert will take the "grow the buffer" path, whose first allocation is the
        // doubled raw buffer
        let will_grow = remaining < sz && knobs.allow_realloc && knobs.raw_threshold.map(|t| before.0 < t).unwrap_or(false);
        let r = tx.call("Sorter::insert", || {
            if arm && will_grow {
                crate::alloc::arm_null(before.0 * 2, 8);
            }
            match sorter.insert(k, v) {
                Ok(()) => Ok(((), Res::Unit)),
                Err(e) => Err(desc_err(&e)),
            }
        });
        if arm {
            crate::alloc::disarm();
        }
        if r.is_none() {
            if tx.stop {
                failed = true;
                return false;
            }
            // transient-fault families: the insert was rejected with Err, the caller keeps inserting
            // (the rejected entry is not part of the volume accounting)
            return true;
        }
        {
            let mut e = env.0.borrow_mut();
            e.window_volume += (k.len() + v.len()) as u64;
            if e.window_volume > e.max_window_volume {
                e.max_window_volume = e.window_volume;
            }
        }
        let p = sorter.verif_probe();
        if p.0 != last_buf {
            obs.reallocs += 1;
            last_buf = p.0;
        }
        if p.0 > obs.max_buffer {
            obs.max_buffer = p.0;
        }
        if obs.probes.len() < 64 {
            obs.probes.push(p);
        }
        true
    });
    if failed {
        return;
    }
    match case.consume {
        0 => {
            let it = tx.call("Sorter::into_stream_merger_iter", move || match sorter.into_stream_merger_iter() {
                Ok(it) => Ok((it, Res::Unit)),
                Err(e) => Err(desc_err(&e)),
            });
            let Some(mut it) = it else { return };
            let mut yielded = 0;
            loop {
                let mut got_none = false;
                let r = tx.call("MergerIter::next", || match it.next() {
                    Ok(x) => {
                        got_none = x.is_none();
                        Ok(((), entry_res(x)))
                    }
                    Err(e) => Err(desc_err(&e)),
                });
                if r.is_none() {
                    return;
                }
                if got_none {
                    break;
                }
                yielded += 1;
                if yielded > total + 1 {
                    break;
                }
            }
        }
        1 => {
            let sink = env.new_sink();
            let data = sink.data_rc();
            let mut w = builder_of(&case.out_knobs).build(sink);
            if tx
                .call("Sorter::write_into_stream_writer", || match sorter.write_into_stream_writer(&mut w) {
                    Ok(()) => Ok(((), Res::Unit)),
                    Err(e) => Err(desc_err(&e)),
                })
                .is_none()
            {
                return;
            }
            if tx
                .call("Writer::finish", move || match w.finish() {
                    Ok(()) => Ok(((), Res::Unit)),
                    Err(e) => Err(desc_io(&e, "io::Error")),
                })
                .is_none()
            {
                return;
            }
            let bytes = data.borrow().clone();
            tx.note("sink.bytes", Res::Bytes(bytes.clone()));
            let Some(mut c) = open_cursor(tx, bytes) else { return };
            for _ in 0..total + 2 {
                if cur_op(tx, &mut c, &Op::Next).is_none() {
                    return;
                }
                if matches!(tx.recs.last().map(|r| &r.res), Some(Res::None)) {
                    break;
                }
            }
        }
        _ => {
            let cursors = tx.call("Sorter::into_reader_cursors", move || match sorter.into_reader_cursors() {
                Ok(c) => {
                    let n = c.len() as u64;
                    Ok((c, Res::Count(n)))
                }
                Err(e) => Err(desc_err(&e)),
            });
            let Some(cursors) = cursors else { return };
            if case.consume == 2 {
                let mf = env.merge_fn(case.mf);
                let mut b = MergerBuilder::new(mf);
                b.extend(cursors);
                let merger = b.build();
                let it = tx.call("Merger::into_stream_merger_iter", move || match merger.into_stream_merger_iter() {
                    Ok(it) => Ok((it, Res::Unit)),
                    Err(e) => Err(desc_err(&e)),
                });
                let Some(mut it) = it else { return };
                let mut yielded = 0;
                loop {
                    let mut got_none = false;
                    let r = tx.call("MergerIter::next", || match it.next() {
                        Ok(x) => {
                            got_none = x.is_none();
                            Ok(((), entry_res(x)))
                        }
                        Err(e) => Err(desc_err(&e)),
                    });
                    if r.is_none() {
                        return;
                    }
                    if got_none {
                        break;
                    }
                    yielded += 1;
                    if yielded > total + 1 {
                        break;
                    }
                }
            } else {
                // scan every chunk cursor in age order; the oracle merges them with the model
                for (ci, mut c) in cursors.into_iter().enumerate() {
                    tx.note("chunk.begin", Res::Count(ci as u64));
                    for _ in 0..total + 2 {
                        let r = tx.call("chunk.move_on_next", || match c.move_on_next() {
                            Ok(x) => Ok(((), entry_res(x))),
                            Err(e) => Err(desc_err(&e)),
                        });
                        if r.is_none() {
                            return;
                        }
                        if matches!(tx.recs.last().map(|r| &r.res), Some(Res::None)) {
                            break;
                        }
                    }
                }
            }
        }
    }
}

pub fn exec_sort(tx: &mut Tx, case: &SortCase, knobs: &SortKnobs) -> SortObs {
    let mut obs = SortObs { probes: Vec::new(), max_buffer: 0, reallocs: 0, exact_fit: 0, entry_gt_buffer: 0 };
    match knobs.creator {
        1 => run_sort(tx, case, knobs, CursorVec, &mut obs),
        2 => run_sort(tx, case, knobs, TempFileChunk, &mut obs),
        _ => {
            let fs = tx.env.fs();
            run_sort(tx, case, knobs, fs, &mut obs);
            if !tx.stop {
                let mut h: u64 = 0;
                for d in tx.env.0.borrow().chunk_datas.iter() {
                    h = h.rotate_left(9) ^ crate::rng::fnv1a(&d.borrow());
                }
                tx.note("chunks.bytes", Res::Count(h));
            }
        }
    }
    obs
}

// -----------------------------------------------------------------------------------------
// W-OPEN (C13)

pub fn exec_open(bytes: &[u8]) -> Res {
    IN_GUARD.fetch_add(1, std::sync::atomic::Ordering::SeqCst);
    let r = catch_unwind(AssertUnwindSafe(|| Reader::new(Cursor::new(bytes))));
    IN_GUARD.fetch_sub(1, std::sync::atomic::Ordering::SeqCst);
    match r {
        Ok(Ok(r)) => Res::Meta {
            len: r.len(),
            codec: codec_id(r.compression_type()),
            version: match r.file_version() {
                FileVersion::FormatV1 => 0,
                FileVersion::FormatV2 => 1,
            },
        },
        Ok(Err(e)) => Res::Err(desc_err(&e)),
        Err(_) => Res::Panic(take_panic()),
    }
}

/// Runs a whole executor body; a panic escaping it can only come from a drop.
pub fn guarded(tx: &mut Tx, body: impl FnOnce(&mut Tx)) {
    IN_GUARD.fetch_add(1, std::sync::atomic::Ordering::SeqCst);
    let r = catch_unwind(AssertUnwindSafe(|| body(tx)));
    IN_GUARD.fetch_sub(1, std::sync::atomic::Ordering::SeqCst);
    if r.is_err() {
        let msg = take_panic();
        tx.note("drop", Res::Panic(msg));
    }
}

#[allow(dead_code)]
pub fn kind_name(k: IoKind) -> &'static str {
    k.name()
}

// -----------------------------------------------------------------------------------------
// files beyond 4 GiB (sparse sink and source)

pub struct BigOut {
    /// logical offset at which the block holding entry i started (one block per entry)
    pub block_starts: Vec<u64>,
    pub data: std::rc::Rc<std::cell::RefCell<crate::env::SparseData>>,
    pub keys: Vec<Vec<u8>>,
    pub small_from: usize,
}

/// Writes `fillers` entries whose values are `filler_len` bytes (their block bodies become holes),
/// then `small` entries with 8-byte values, through the real writer into a sparse sink.
pub fn exec_big_write(tx: &mut Tx, knobs: &Knobs, fillers: u32, filler_len: u32, small: u32) -> Option<BigOut> {
    let (sink, data) = tx.env.new_sparse_sink();
    let mut w = builder_of(knobs).build(sink);
    let filler = vec![0x5Au8; filler_len as usize];
    let mut block_starts = Vec::new();
    let mut keys = Vec::new();
    let total = fillers + small;
    tx.lean = true;
    for i in 0..total {
        let key = (i as u64 * 3 + 1).to_be_bytes().to_vec();
        let is_filler = i < fillers;
        tx.env.0.borrow_mut().hole_big_writes = is_filler;
        block_starts.push(data.borrow().len);
        let val: &[u8] = if is_filler { &filler } else { &key };
        let r = tx.call("Writer::insert", || match w.insert(&key, val) {
            Ok(()) => Ok(((), Res::Unit)),
            Err(e) => Err(desc_io(&e, "io::Error")),
        });
        keys.push(key);
        r?;
    }
    tx.env.0.borrow_mut().hole_big_writes = false;
    tx.call("Writer::finish", move || match w.finish() {
        Ok(()) => Ok(((), Res::Unit)),
        Err(e) => Err(desc_io(&e, "io::Error")),
    })?;
    tx.lean = false;
    Some(BigOut { block_starts, data, keys, small_from: fillers as usize })
}
