//! Seeded generation of workloads, knobs and environment plans (swarm style: every run first
//! draws a profile, then the scenario).

use std::collections::BTreeSet;

use crate::case::*;
use crate::env::{EnvPlan, IoMode, MergeKind};
use crate::rng::Rng;

#[derive(Clone, Copy, PartialEq, Eq, Debug)]
pub enum Tier {
    Quick,
    Thorough,
}

pub const ALPHA: [u8; 6] = [0x00, 0x01, 0x7F, 0x80, 0xFE, 0xFF];

pub fn gen_env(rng: &mut Rng, allow_whole_only: bool) -> EnvPlan {
    let stream = rng.next_u64();
    let maxes = [1usize, 2, 3, 7, 64, 4096];
    let dens = [2u32, 4, 16];
    let style = rng.weighted(&[if allow_whole_only { 25 } else { 0 }, 15, 25, 30, 8]);
    let modes = match style {
        0 => vec![IoMode::Whole],
        1 => vec![IoMode::Chop { max: 1 }],
        2 => {
            let m = *rng.pick(&maxes);
            vec![IoMode::Chop { max: m }, IoMode::Whole, IoMode::Chop { max: *rng.pick(&maxes) }]
        }
        4 => {
            // signal storms: 17-40 consecutive Interrupted results before some transfers
            let m = *rng.pick(&[64usize, 512, 4096, 8192]);
            vec![IoMode::ChopBurst { max: m, den: *rng.pick(&[3u32, 8, 20]), burst: rng.range(17, 40) as u32 }]
        }
        _ => {
            let m = *rng.pick(&maxes);
            let d = *rng.pick(&dens);
            let mut v = vec![IoMode::ChopIntr { max: m, den: d }];
            if rng.chance(1, 2) {
                v.push(IoMode::Chop { max: *rng.pick(&maxes) });
            }
            if rng.chance(1, 3) {
                v.push(IoMode::Whole);
            }
            v
        }
    };
    // derived from the stream value, not drawn: one in four plans hands the reader a source that
    // does not stand at byte 0 (within the last 30 bytes, at the end, or anywhere up to 6000)
    let h = crate::rng::mix(stream, 0x57a7);
    let src_start = match h % 8 {
        0 => -(1 + ((h >> 8) % 30) as i64),
        1 => 1 + ((h >> 8) % 6000) as i64,
        _ => 0,
    };
    EnvPlan { modes, stream, faults: vec![], crash: None, buffered: rng.chance(1, 2), shared_pos: rng.chance(1, 4), src_start }
}

pub fn gen_knobs(rng: &mut Rng, wide: bool) -> Knobs {
    let codec = rng.weighted(&[30, 10, 15, 15, 15, 15]) as u8;
    let level = match codec {
        4 => {
            // levels >= 19 make zstd map and clear very large windows per block (0.1-1 s each): rare
            if rng.chance(1, 300) {
                *rng.pick(&[19u32, 22, 255, i32::MAX as u32])
            } else {
                *rng.pick(&[0u32, 0, 1, 1, 3, 3, 3, 9, 10, 11, 1 << 31, u32::MAX])
            }
        }
        2 => *rng.pick(&[0u32, 1, 1, 3, 6, 9, 10, 11, 19, 22, 255, 1 << 31, u32::MAX]),
        _ => *rng.pick(&[0u32, 0, 1, 3, 9, 255, u32::MAX]),
    };
    let block_size = match rng.weighted(&[10, 4, 3, 4, 25, 5, 10, 8, 10, 3, 3]) {
        0 => None,
        1 => Some(0),
        2 => Some(1),
        3 => Some(1023),
        4 => Some(1024),
        5 => Some(1025),
        6 => Some(2048),
        7 => Some(4096),
        8 => Some(8192),
        9 => Some(65536),
        _ => Some(usize::MAX),
    };
    let interval = match rng.weighted(&[25, 12, 10, 10, 12, 8, 5, 4, 3]) {
        8 => Some(*rng.pick(&[(1usize << 32) + 1, (1 << 32) + 2, (1 << 32) + 7, u32::MAX as usize, u32::MAX as usize + 9])),
        0 => None,
        1 => Some(1),
        2 => Some(2),
        3 => Some(3),
        4 => Some(8),
        5 => Some(16),
        6 => Some(1000),
        _ => Some(usize::MAX),
    };
    let levels = if wide {
        [0u8, 1, 2, 3, 4, 7, 254, 255][rng.weighted(&[30, 20, 20, 12, 8, 4, 2, 2])]
    } else {
        [0u8, 1, 2, 3, 4][rng.weighted(&[30, 20, 25, 15, 10])]
    };
    let mut k = Knobs { codec, level, block_size, interval, levels, ctor: 0, fin: rng.below(2) as u8 };
    match rng.below(10) {
        0 => {
            // Writer::new(sink): only defaults are reachable through this constructor
            k = Knobs::default_knobs();
            // 1: Writer::new(sink), 3: Writer::memory()
            k.ctor = if rng.chance(2, 3) { 1 } else { 3 };
            k.fin = rng.below(2) as u8;
        }
        1 => k.ctor = 2,
        _ => {}
    }
    k
}

#[derive(Clone, Copy, Debug, PartialEq, Eq)]
pub enum KeyClass {
    /// families of keys 10-20 bytes long over {00, 01, FF} in which keys are zero-padded or
    /// otherwise extended forms of one another (lengths around 15/16/17)
    Family,
    Alpha,
    Counter,
    Long,
    Giant,
    Random,
}

pub fn gen_keys(rng: &mut Rng, n: usize, class: KeyClass, block: usize) -> Vec<Vec<u8>> {
    let mut set: BTreeSet<Vec<u8>> = BTreeSet::new();
    match class {
        KeyClass::Family => {
            let mut tries = 0;
            while set.len() < n && tries < n * 3 + 8 {
                tries += 1;
                let stem_len = rng.urange(9, 16);
                let mut stem: Vec<u8> = (0..stem_len).map(|_| *rng.pick(&[0x00u8, 0x01, 0x61, 0xFF])).collect();
                if rng.chance(1, 5) {
                    // a run of 0xFF bytes at the front (keys above every "ordinary" bound)
                    let run = rng.urange(8, 10).min(stem.len());
                    for b in stem[..run].iter_mut() {
                        *b = 0xFF;
                    }
                }
                set.insert(stem.clone());
                let mut k = stem;
                for _ in 0..rng.urange(1, 6) {
                    if k.len() >= 22 {
                        break;
                    }
                    k.push(*rng.pick(&[0x00u8, 0x00, 0x00, 0x01, 0xFF]));
                    if set.len() < n {
                        set.insert(k.clone());
                    }
                }
            }
        }
        KeyClass::Alpha => {
            let maxlen = rng.urange(2, 6);
            let mut tries = 0;
            while set.len() < n && tries < n * 4 + 16 {
                tries += 1;
                let len = rng.urange(0, maxlen);
                let k: Vec<u8> = (0..len).map(|_| *rng.pick(&ALPHA)).collect();
                set.insert(k);
            }
        }
        KeyClass::Counter => {
            let width = *rng.pick(&[1usize, 2, 3, 4, 4, 8]);
            let stride = *rng.pick(&[1u64, 1, 2, 3, 7, 256]);
            let cap: u64 = if width >= 8 { u64::MAX } else { (1u64 << (8 * width)) - 1 };
            let start = rng.range(0, 20);
            for i in 0..n as u64 {
                let x = start + i * stride;
                if x > cap {
                    break;
                }
                set.insert(x.to_be_bytes()[8 - width..].to_vec());
            }
        }
        KeyClass::Long => {
            let plen = rng.urange(20, 250);
            let prefix = rng.bytes(plen);
            let stride = *rng.pick(&[1u32, 3, 1000]);
            for i in 0..n as u32 {
                let mut k = prefix.clone();
                k.extend_from_slice(&(i * stride).to_be_bytes());
                let sl = rng.urange(0, 40);
                k.extend(rng.bytes(sl));
                set.insert(k);
            }
        }
        KeyClass::Giant => {
            for k in gen_keys(rng, n, KeyClass::Counter, block) {
                set.insert(k);
            }
            for _ in 0..rng.urange(1, 2) {
                let len = match rng.below(12) {
                    0 => *rng.pick(&[16383usize, 16384, 16385]),
                    1 => *rng.pick(&[(1usize << 21) - 1, 1 << 21, (1 << 21) + 1]),
                    _ => block + rng.urange(1, 600),
                };
                set.insert(rng.bytes(len));
            }
        }
        KeyClass::Random => {
            let maxlen = rng.urange(1, 12);
            let mut tries = 0;
            while set.len() < n && tries < n * 4 + 16 {
                tries += 1;
                let len = rng.urange(0, maxlen);
                set.insert(rng.bytes(len));
            }
        }
    }
    set.into_iter().collect()
}

/// Value length classes; `block` is the effective block size.
pub fn gen_value_len(rng: &mut Rng, profile: u8, block: usize, klen: usize) -> usize {
    let class = match profile {
        0 => rng.weighted(&[10, 60, 10, 5, 5, 10]),  // mostly tiny
        1 => rng.weighted(&[5, 15, 30, 35, 5, 10]),  // block shaping
        2 => rng.weighted(&[5, 30, 10, 10, 30, 15]), // big values
        _ => rng.weighted(&[40, 60, 0, 0, 0, 0]),    // empty / tiny only
    };
    match class {
        0 => 0,
        1 => rng.urange(1, 16),
        2 => block / 4 + rng.urange(0, 8),
        3 => {
            // lands on the cut threshold: block - 12 (footer) - framing - key ± 1
            let overhead = 12 + 3 + klen;
            let base = block.saturating_sub(overhead);
            (base + rng.urange(0, 4)).saturating_sub(2)
        }
        4 => rng.urange(2000, 5000),
        _ => {
            // framing boundaries 2^7, 2^14 and, rarely (2 MiB per entry), 2^21
            if rng.chance(1, 40) {
                *rng.pick(&[(1usize << 21) - 1, 1 << 21, (1 << 21) + 1])
            } else if rng.chance(1, 30) {
                // tens of KiB: larger than the internal buffers of the codec crates
                rng.urange(60_000, 200_000)
            } else {
                *rng.pick(&[127usize, 128, 129, 16383, 16384, 16385])
            }
        }
    }
}

pub fn make_value(rng: &mut Rng, idx: usize, len: usize, compressible: bool) -> Vec<u8> {
    let mut v = if compressible {
        let pat = [(idx % 251) as u8, 0xAB, 0x00, 0xFF];
        (0..len).map(|i| pat[i % 4]).collect::<Vec<u8>>()
    } else {
        rng.bytes(len)
    };
    if len >= 4 {
        v[..4].copy_from_slice(&(idx as u32).to_be_bytes());
    }
    v
}

pub fn gen_entries(rng: &mut Rng, maxn: usize, block: usize, byte_cap: usize) -> Vec<(B, B)> {
    let n = rng.log_uniform(0, maxn as u64) as usize;
    let class = [KeyClass::Alpha, KeyClass::Counter, KeyClass::Long, KeyClass::Giant, KeyClass::Random, KeyClass::Family]
        [rng.weighted(&[24, 28, 19, 5, 18, 6])];
    gen_entries_with(rng, n, class, block, byte_cap)
}

pub fn gen_entries_with(rng: &mut Rng, n: usize, class: KeyClass, block: usize, byte_cap: usize) -> Vec<(B, B)> {
    let n = if class == KeyClass::Long { n.min(400) } else { n };
    let keys = gen_keys(rng, n, class, block.min(8192));
    let profile = rng.weighted(&[45, 30, 15, 10]) as u8;
    let compressible = rng.chance(1, 2);
    let mut total = 0usize;
    let mut out = Vec::with_capacity(keys.len());
    for (i, k) in keys.into_iter().enumerate() {
        let mut vl = gen_value_len(rng, profile, block.min(8192), k.len());
        if total + vl > byte_cap && !(vl >= (1 << 21) - 1 && vl <= (1 << 21) + 1 && total < (1 << 21)) && !(vl >= 60_000 && vl <= 200_000 && total < 400_000) {
            vl = rng.urange(0, 8);
        }
        total += vl + k.len();
        // now and then the value is the key itself (equal lengths, equal bytes) or has the key's length
        let v = match rng.below(24) {
            0 => k.clone(),
            1 => make_value(rng, i, k.len(), compressible),
            _ => make_value(rng, i, vl, compressible),
        };
        out.push((B(k), B(v)));
    }
    out
}

/// A block holding more than 2^16 entries, each with its own footer offset, followed by more blocks.
pub fn gen_dense_spec(rng: &mut Rng) -> FileSpec {
    let n = rng.urange(70_000, 140_000);
    let ents = (0..n).map(|i| (B((i as u32 * 2 + 1).to_be_bytes()[1..].to_vec()), B(Vec::new()))).collect();
    let knobs = Knobs {
        codec: *rng.pick(&[0u8, 0, 5, 3]),
        level: 0,
        block_size: Some(*rng.pick(&[1usize << 20, 3 << 19])),
        interval: Some(*rng.pick(&[1usize, 1, 2])),
        levels: *rng.pick(&[0u8, 1, 2]),
        ctor: 0,
        fin: 0,
    };
    FileSpec { knobs, entries: Entries::Literal(ents) }
}

pub fn gen_file_spec(rng: &mut Rng, tier: Tier, wide: bool) -> FileSpec {
    if rng.chance(1, 400) {
        return gen_dense_spec(rng);
    }
    let knobs = gen_knobs(rng, wide);
    let (maxn, cap) = match tier {
        Tier::Quick => (3000, 192 * 1024),
        Tier::Thorough => (20000, 1024 * 1024),
    };
    let entries = gen_entries(rng, maxn, knobs.effective_block_size(), cap);
    let mut knobs = knobs;
    tame_zstd(&mut knobs, &entries);
    FileSpec { knobs, entries: Entries::Literal(entries) }
}

/// Layout-aware shaping: long keys and block-sized values so that a few dozen entries already
/// give several blocks at a non-root index level.
pub fn gen_layered_spec(rng: &mut Rng, tier: Tier) -> FileSpec {
    let levels = [0u8, 1, 2, 3, 4][rng.weighted(&[10, 15, 35, 25, 15])];
    let block = *rng.pick(&[1024usize, 1024, 1024, 2048]);
    let codec = rng.weighted(&[55, 5, 10, 10, 10, 10]) as u8;
    let interval = *rng.pick(&[None, Some(1), Some(2), Some(3), Some(8)]);
    let knobs = Knobs { codec, level: 1, block_size: Some(block), interval, levels, ctor: 0, fin: 0 };
    let maxn = match tier {
        Tier::Quick => 160,
        Tier::Thorough => 600,
    };
    let n = rng.urange(0, maxn);
    let plen = rng.urange(60, 260);
    let prefix = rng.bytes(plen);
    let vstyle = rng.below(3);
    let mut entries = Vec::with_capacity(n);
    for i in 0..n {
        let mut k = prefix.clone();
        k.extend_from_slice(&((i as u32) * 2 + 1).to_be_bytes());
        let vl = match vstyle {
            0 => block - 20 - k.len().min(block - 20) + rng.urange(0, 30), // about one entry per block
            1 => block / 2 + rng.urange(0, 40),
            _ => rng.urange(0, 40),
        };
        let v = make_value(rng, i, vl, true);
        entries.push((B(k), B(v)));
    }
    FileSpec { knobs, entries: Entries::Literal(entries) }
}

/// Probe keys covering every equivalence class relative to the stored keys.
pub fn gen_probes(rng: &mut Rng, keys: &[Vec<u8>], budget: usize) -> Vec<Vec<u8>> {
    let mut out: Vec<Vec<u8>> = Vec::new();
    out.push(Vec::new());
    out.push(vec![0xFF; 8]);
    out.push(vec![0x00]);
    if let Some(first) = keys.first() {
        out.push(pred(first));
        if !first.is_empty() {
            out.push(first[..first.len() - 1].to_vec());
        }
    }
    if let Some(last) = keys.last() {
        let mut a = last.clone();
        a.push(0);
        out.push(a);
        let mut b = last.clone();
        b.push(0xFF);
        out.push(b);
        out.push(vec![0xFF; last.len() + 1]);
    }
    let per_key = |k: &Vec<u8>, out: &mut Vec<Vec<u8>>, rng: &mut Rng| {
        out.push(k.clone());
        let mut a = k.clone();
        a.push(0);
        out.push(a); // immediate successor
        out.push(pred(k));
        if !k.is_empty() {
            out.push(k[..rng.urange(0, k.len() - 1)].to_vec()); // a prefix
            let mut c = k.clone();
            let l = c.len() - 1;
            c[l] = c[l].wrapping_add(1);
            out.push(c);
            let mut d = k.clone();
            d[l] = d[l].wrapping_sub(1);
            out.push(d);
        }
        let mut e = k.clone();
        e.push(*rng.pick(&ALPHA));
        out.push(e);
    };
    if keys.len() * 7 <= budget {
        for k in keys {
            per_key(k, &mut out, rng);
        }
    } else if !keys.is_empty() {
        for _ in 0..budget / 7 {
            let k = &keys[rng.usize_below(keys.len())];
            per_key(k, &mut out, rng);
        }
    }
    // between adjacent keys: common-prefix truncations
    for w in keys.windows(2).take(budget / 4) {
        let cp = w[0].iter().zip(w[1].iter()).take_while(|(a, b)| a == b).count();
        let mut m = w[1][..(cp + 1).min(w[1].len())].to_vec();
        if m > w[0] && m < w[1] {
            out.push(m.clone());
        }
        m.push(0);
        out.push(m);
    }
    for _ in 0..8 {
        let l = rng.urange(0, 10);
        out.push(rng.bytes(l));
    }
    // probes far longer than the stored keys: a stored key (or a prefix of one) padded to lengths on
    // and next to multiples of 256 and 65536, where a length kept in a narrower integer wraps
    // (side stream: the main stream stays as it was)
    let mut side = rng.clone();
    if !keys.is_empty() {
        for _ in 0..(budget / 40).clamp(2, 24) {
            let k = &keys[side.usize_below(keys.len())];
            let stem = if side.chance(1, 4) && !k.is_empty() { k[..side.urange(0, k.len() - 1)].to_vec() } else { k.clone() };
            let base = *side.pick(&[256usize, 256, 512, 768, 1024, 65536]);
            let l = base + side.urange(0, 9) - 1;
            if l <= stem.len() {
                continue;
            }
            let fill = *side.pick(&[0x00u8, 0x00, 0xFF, 0x61]);
            let mut q = stem;
            q.resize(l, fill);
            out.push(q);
        }
    }
    out
}

/// A byte string just below `k` (not necessarily the immediate predecessor).
pub fn pred(k: &[u8]) -> Vec<u8> {
    let mut p = k.to_vec();
    match p.last().copied() {
        None => p,
        Some(0) => {
            p.pop();
            p
        }
        Some(x) => {
            let l = p.len() - 1;
            p[l] = x - 1;
            p.push(0xFF);
            p
        }
    }
}

pub fn gen_merge_kind(rng: &mut Rng) -> MergeKind {
    [MergeKind::Concat, MergeKind::First, MergeKind::Last, MergeKind::Join][rng.weighted(&[52, 18, 18, 12])]
}

/// A self-delimiting value record `[len:u16][id:u32][padding]`.
pub fn record(id: u32, pad: usize) -> Vec<u8> {
    let len = 6 + pad;
    let mut v = Vec::with_capacity(len);
    v.extend_from_slice(&(len as u16).to_be_bytes());
    v.extend_from_slice(&id.to_be_bytes());
    for i in 0..pad {
        v.push((id as usize + i) as u8);
    }
    v
}

pub fn parse_records(mut v: &[u8]) -> Option<Vec<u32>> {
    let mut out = Vec::new();
    while !v.is_empty() {
        if v.len() < 6 {
            return None;
        }
        let len = u16::from_be_bytes([v[0], v[1]]) as usize;
        if len < 6 || len > v.len() {
            return None;
        }
        let id = u32::from_be_bytes([v[2], v[3], v[4], v[5]]);
        for i in 0..len - 6 {
            if v[6 + i] != (id as usize + i) as u8 {
                return None;
            }
        }
        out.push(id);
        v = &v[len..];
    }
    Some(out)
}

/// zstd levels >= 4 (and everything clamped to 22 "ultra") allocate and clear large windows for
/// every block: keep them for tiny files only so that they are covered without dominating runtime.
pub fn tame_zstd(knobs: &mut Knobs, entries: &[(B, B)]) {
    if knobs.codec == 4 && knobs.level >= 4 && knobs.level <= i32::MAX as u32 {
        let total: usize = entries.iter().map(|(k, v)| k.0.len() + v.0.len()).sum();
        let limit = if knobs.level <= 11 { 16 * 1024 } else { 1024 };
        if total > limit {
            knobs.level = [0u32, 1, 3][total % 3];
        }
    }
}
