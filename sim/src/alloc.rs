//! The allocator seam. `VerifAlloc` wraps the system allocator: it checks that the layout passed
//! to `dealloc` equals the layout allocated (Rust-level UB that AddressSanitizer cannot see),
//! guards each block with a canary, detects double frees, keeps per-thread live/peak byte
//! counters (bytes held by simulated storage excluded) and can return null for one armed
//! (size, align). Freed blocks are poisoned and parked in a per-thread quarantine. Lock-free;
//! never allocates.

use std::alloc::{GlobalAlloc, Layout, System};
use std::cell::Cell;
use std::sync::atomic::{AtomicU64, AtomicUsize, Ordering};

const LIVE: u64 = 0x5645_5249_464C_4956; // "VERIFLIV"
const FREED: u64 = 0x5645_5249_4644_4541; // "VERIFDEA"
const CANARY: u64 = 0xC0DE_CAFE_F00D_BEEF;
const HDR: usize = 32;

pub static ERR_COUNT: AtomicU64 = AtomicU64::new(0);
static ERR_KIND: AtomicU64 = AtomicU64::new(0);
static ERR_A: AtomicU64 = AtomicU64::new(0);
static ERR_B: AtomicU64 = AtomicU64::new(0);
static ARM_SIZE: AtomicUsize = AtomicUsize::new(0);
static ARM_ALIGN: AtomicUsize = AtomicUsize::new(0);
pub static NULLS_RETURNED: AtomicU64 = AtomicU64::new(0);

thread_local! {
    static T_LIVE: Cell<u64> = const { Cell::new(0) };
    static T_PEAK: Cell<u64> = const { Cell::new(0) };
    static T_STORAGE: Cell<bool> = const { Cell::new(false) };
    static T_ALLOCS: Cell<u64> = const { Cell::new(0) };
}

/// Freed blocks are not handed back to the system allocator at once: they wait, filled with the
/// poison byte, in a per-thread FIFO (like a sanitizer's quarantine), so that a read through a
/// dangling pointer yields poison deterministically instead of whatever the block was reused for,
/// and a write through one is found when the block leaves the quarantine.
const Q_SLOTS: usize = 512;
const Q_BYTES: usize = 3 << 20;
const Q_MAX_BLOCK: usize = 1 << 20;

struct Quarantine {
    base: [*mut u8; Q_SLOTS],
    under_size: [usize; Q_SLOTS],
    under_align: [usize; Q_SLOTS],
    user_off: [usize; Q_SLOTS],
    user_size: [usize; Q_SLOTS],
    head: usize,
    len: usize,
    bytes: usize,
}

thread_local! {
    static T_Q: std::cell::UnsafeCell<Quarantine> = const {
        std::cell::UnsafeCell::new(Quarantine {
            base: [std::ptr::null_mut(); Q_SLOTS],
            under_size: [0; Q_SLOTS],
            under_align: [0; Q_SLOTS],
            user_off: [0; Q_SLOTS],
            user_size: [0; Q_SLOTS],
            head: 0,
            len: 0,
            bytes: 0,
        })
    };
}

unsafe fn q_evict_one(q: &mut Quarantine) {
    let i = q.head;
    let user = q.base[i].add(q.user_off[i]);
    let n = q.user_size[i];
    // the poison must be intact: nothing may have written to the block after it was freed
    let sl = std::slice::from_raw_parts(user, n);
    if let Some(pos) = sl.iter().position(|b| *b != 0xDD) {
        report(5, n as u64, pos as u64);
    }
    System.dealloc(q.base[i], Layout::from_size_align_unchecked(q.under_size[i], q.under_align[i]));
    q.bytes -= q.under_size[i];
    q.head = (q.head + 1) % Q_SLOTS;
    q.len -= 1;
}

pub struct VerifAlloc;

fn report(kind: u64, a: u64, b: u64) {
    if ERR_COUNT.fetch_add(1, Ordering::SeqCst) == 0 {
        ERR_KIND.store(kind, Ordering::SeqCst);
        ERR_A.store(a, Ordering::SeqCst);
        ERR_B.store(b, Ordering::SeqCst);
    }
}

fn hdr_for(align: usize) -> usize {
    HDR.max(align)
}

fn pad_for(align: usize) -> usize {
    if align < 16 {
        align
    } else {
        0
    }
}

unsafe impl GlobalAlloc for VerifAlloc {
    unsafe fn alloc(&self, layout: Layout) -> *mut u8 {
        let armed = ARM_SIZE.load(Ordering::Relaxed);
        if armed != 0 {
            // armed for the very next allocation only: it fires if that allocation has exactly the
            // armed layout (the sorter's raw buffer doubling), and is dropped otherwise
            ARM_SIZE.store(0, Ordering::SeqCst);
            if armed == layout.size() && ARM_ALIGN.load(Ordering::Relaxed) == layout.align() {
                NULLS_RETURNED.fetch_add(1, Ordering::SeqCst);
                return std::ptr::null_mut();
            }
        }
        // the block is aligned exactly as requested and no better (address = 16k + align for
        // alignments below 16): code that assumes more alignment than it asked for — a u64 view of a
        // byte buffer — then meets a misaligned address, which the standard library's debug
        // preconditions (enabled for grenad in this build) refuse
        let hdr = hdr_for(layout.align()) + pad_for(layout.align());
        let align = layout.align().max(16);
        let total = match layout.size().checked_add(hdr + 8) {
            Some(t) => t,
            None => return std::ptr::null_mut(),
        };
        let under = match Layout::from_size_align(total, align) {
            Ok(l) => l,
            Err(_) => return std::ptr::null_mut(),
        };
        let base = System.alloc(under);
        if base.is_null() {
            return base;
        }
        let user = base.add(hdr);
        let h = user.sub(HDR) as *mut u64;
        let storage = T_STORAGE.try_with(|s| s.get()).unwrap_or(true);
        h.write_unaligned(LIVE);
        h.add(1).write_unaligned(layout.size() as u64);
        h.add(2).write_unaligned(layout.align() as u64);
        h.add(3).write_unaligned(storage as u64);
        (user.add(layout.size()) as *mut [u8; 8]).write(CANARY.to_le_bytes());
        if !storage {
            // fresh memory is junk, and the same junk in every process: a read of bytes that were never
            // written yields 0xCD deterministically (alloc_zeroed overwrites it with zeros afterwards)
            std::ptr::write_bytes(user, 0xCD, layout.size());
            let _ = T_LIVE.try_with(|l| {
                let v = l.get() + layout.size() as u64;
                l.set(v);
                let _ = T_PEAK.try_with(|p| {
                    if v > p.get() {
                        p.set(v)
                    }
                });
            });
            let _ = T_ALLOCS.try_with(|a| a.set(a.get() + 1));
        }
        user
    }

    unsafe fn dealloc(&self, ptr: *mut u8, layout: Layout) {
        let h = ptr.sub(HDR) as *mut u64;
        let magic = h.read_unaligned();
        if magic != LIVE {
            // double free or foreign pointer: do not touch the system allocator with it
            report(if magic == FREED { 2 } else { 3 }, layout.size() as u64, layout.align() as u64);
            return;
        }
        let size = h.add(1).read_unaligned() as usize;
        let align = h.add(2).read_unaligned() as usize;
        let storage = h.add(3).read_unaligned() != 0;
        if size != layout.size() || align != layout.align() {
            report(1, ((size as u64) << 8) | align as u64, ((layout.size() as u64) << 8) | layout.align() as u64);
        }
        let can = (ptr.add(size) as *const [u8; 8]).read();
        if u64::from_le_bytes(can) != CANARY {
            report(4, size as u64, align as u64);
        }
        h.write_unaligned(FREED);
        if !storage {
            let _ = T_LIVE.try_with(|l| l.set(l.get().saturating_sub(size as u64)));
            // poison: a read through a dangling reference yields 0xDD bytes deterministically
            std::ptr::write_bytes(ptr, 0xDD, size);
        }
        let hdr = hdr_for(align) + pad_for(align);
        let under = Layout::from_size_align_unchecked(size + hdr + 8, align.max(16));
        if !storage && under.size() <= Q_MAX_BLOCK {
            let parked = T_Q
                .try_with(|q| {
                    let q = &mut *q.get();
                    while q.len == Q_SLOTS || (q.len > 0 && q.bytes + under.size() > Q_BYTES) {
                        q_evict_one(q);
                    }
                    let i = (q.head + q.len) % Q_SLOTS;
                    q.base[i] = ptr.sub(hdr);
                    q.under_size[i] = under.size();
                    q.under_align[i] = under.align();
                    q.user_off[i] = hdr;
                    q.user_size[i] = size;
                    q.len += 1;
                    q.bytes += under.size();
                })
                .is_ok();
            if parked {
                return;
            }
        }
        System.dealloc(ptr.sub(hdr), under);
    }
}

#[cfg(all(feature = "verif-alloc", not(miri)))]
#[global_allocator]
static GLOBAL: VerifAlloc = VerifAlloc;

pub fn enabled() -> bool {
    cfg!(all(feature = "verif-alloc", not(miri)))
}

pub fn thread_live() -> u64 {
    T_LIVE.with(|l| l.get())
}

pub fn thread_allocs() -> u64 {
    T_ALLOCS.with(|l| l.get())
}

/// Returns the peak since the last reset and restarts peak tracking from the current live size.
pub fn thread_peak_reset() -> u64 {
    let live = thread_live();
    T_PEAK.with(|p| {
        let old = p.get();
        p.set(live);
        old
    })
}

/// Allocations made inside `f` on this thread are simulated storage (excluded from counters).
pub fn storage_scope<R>(f: impl FnOnce() -> R) -> R {
    let prev = T_STORAGE.with(|s| s.replace(true));
    let r = f();
    T_STORAGE.with(|s| s.set(prev));
    r
}

pub fn arm_null(size: usize, align: usize) {
    ARM_ALIGN.store(align, Ordering::SeqCst);
    ARM_SIZE.store(size, Ordering::SeqCst);
}

pub fn disarm() -> bool {
    ARM_SIZE.swap(0, Ordering::SeqCst) != 0
}

/// Takes the first recorded misuse (if any) and clears the record.
pub fn take_error() -> Option<String> {
    let n = ERR_COUNT.swap(0, Ordering::SeqCst);
    if n == 0 {
        return None;
    }
    let kind = ERR_KIND.load(Ordering::SeqCst);
    let a = ERR_A.load(Ordering::SeqCst);
    let b = ERR_B.load(Ordering::SeqCst);
    Some(match kind {
        1 => format!(
            "dealloc with a mismatched layout: allocated (size {}, align {}), freed as (size {}, align {}) [{} report(s)]",
            a >> 8,
            a & 0xff,
            b >> 8,
            b & 0xff,
            n
        ),
        2 => format!("double free of a block (size {}, align {}) [{} report(s)]", a, b, n),
        3 => format!("free of a pointer this allocator never returned (size {}, align {}) [{} report(s)]", a, b, n),
        4 => format!("write past the end of an allocation of size {} (canary overwritten) [{} report(s)]", a, n),
        5 => format!("write to freed memory: a freed block of {} bytes was modified at offset {} while it waited in the quarantine [{} report(s)]", a, b, n),
        _ => format!("allocator misuse kind {} [{} report(s)]", kind, n),
    })
}
