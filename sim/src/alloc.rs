//! The allocator seam. `VerifAlloc` wraps the system allocator: it checks that the layout passed
//! to `dealloc` equals the layout allocated (Rust-level UB that AddressSanitizer cannot see),
//! guards each block with a canary, detects double frees, keeps per-thread live/peak byte
//! counters (bytes held by simulated storage excluded) and can return null for one armed
//! (size, align). Lock-free; never allocates.

use std::alloc::{GlobalAlloc, Layout, System};
use std::cell::Cell;
use std::sync::atomic::{AtomicU64, AtomicUsize, Ordering};

const LIVE: u64 = 0x5645_5249_464C_4956; // "VERIFLIV"
const FREED: u64 = 0x5645_5249_4644_4541; // "VERIFDEA"
const CANARY: u64 = 0xC0DE_CAFE_F00D_BEEF;
const HDR: usize = 32;

pub static ERR_COUNT: AtomicU64 = AtomicU64::new(0);
static ERR_KIND: AtomicU64 = AtomicU64::new(0);
static ERR_A: AtomicU64 = AtomicU64::new(0);
static ERR_B: AtomicU64 = AtomicU64::new(0);
static ARM_SIZE: AtomicUsize = AtomicUsize::new(0);
static ARM_ALIGN: AtomicUsize = AtomicUsize::new(0);
pub static NULLS_RETURNED: AtomicU64 = AtomicU64::new(0);

thread_local! {
    static T_LIVE: Cell<u64> = const { Cell::new(0) };
    static T_PEAK: Cell<u64> = const { Cell::new(0) };
    static T_STORAGE: Cell<bool> = const { Cell::new(false) };
    static T_ALLOCS: Cell<u64> = const { Cell::new(0) };
}

pub struct VerifAlloc;

fn report(kind: u64, a: u64, b: u64) {
    if ERR_COUNT.fetch_add(1, Ordering::SeqCst) == 0 {
        ERR_KIND.store(kind, Ordering::SeqCst);
        ERR_A.store(a, Ordering::SeqCst);
        ERR_B.store(b, Ordering::SeqCst);
    }
}

fn hdr_for(align: usize) -> usize {
    HDR.max(align)
}

unsafe impl GlobalAlloc for VerifAlloc {
    unsafe fn alloc(&self, layout: Layout) -> *mut u8 {
        let armed = ARM_SIZE.load(Ordering::Relaxed);
        if armed != 0 {
            // armed for the very next allocation only: it fires if that allocation has exactly the
            // armed layout (the sorter's raw buffer doubling), and is dropped otherwise
            ARM_SIZE.store(0, Ordering::SeqCst);
            if armed == layout.size() && ARM_ALIGN.load(Ordering::Relaxed) == layout.align() {
                NULLS_RETURNED.fetch_add(1, Ordering::SeqCst);
                return std::ptr::null_mut();
            }
        }
        let hdr = hdr_for(layout.align());
        let align = layout.align().max(16);
        let total = match layout.size().checked_add(hdr + 8) {
            Some(t) => t,
            None => return std::ptr::null_mut(),
        };
        let under = match Layout::from_size_align(total, align) {
            Ok(l) => l,
            Err(_) => return std::ptr::null_mut(),
        };
        let base = System.alloc(under);
        if base.is_null() {
            return base;
        }
        let user = base.add(hdr);
        let h = user.sub(HDR) as *mut u64;
        let storage = T_STORAGE.try_with(|s| s.get()).unwrap_or(true);
        h.write(LIVE);
        h.add(1).write(layout.size() as u64);
        h.add(2).write(layout.align() as u64);
        h.add(3).write(storage as u64);
        (user.add(layout.size()) as *mut [u8; 8]).write(CANARY.to_le_bytes());
        if !storage {
            let _ = T_LIVE.try_with(|l| {
                let v = l.get() + layout.size() as u64;
                l.set(v);
                let _ = T_PEAK.try_with(|p| {
                    if v > p.get() {
                        p.set(v)
                    }
                });
            });
            let _ = T_ALLOCS.try_with(|a| a.set(a.get() + 1));
        }
        user
    }

    unsafe fn dealloc(&self, ptr: *mut u8, layout: Layout) {
        let h = ptr.sub(HDR) as *mut u64;
        let magic = h.read();
        if magic != LIVE {
            // double free or foreign pointer: do not touch the system allocator with it
            report(if magic == FREED { 2 } else { 3 }, layout.size() as u64, layout.align() as u64);
            return;
        }
        let size = h.add(1).read() as usize;
        let align = h.add(2).read() as usize;
        let storage = h.add(3).read() != 0;
        if size != layout.size() || align != layout.align() {
            report(1, ((size as u64) << 8) | align as u64, ((layout.size() as u64) << 8) | layout.align() as u64);
        }
        let can = (ptr.add(size) as *const [u8; 8]).read();
        if u64::from_le_bytes(can) != CANARY {
            report(4, size as u64, align as u64);
        }
        h.write(FREED);
        if !storage {
            let _ = T_LIVE.try_with(|l| l.set(l.get().saturating_sub(size as u64)));
            // poison: a read through a dangling reference yields 0xDD bytes deterministically
            std::ptr::write_bytes(ptr, 0xDD, size);
        }
        let hdr = hdr_for(align);
        let under = Layout::from_size_align_unchecked(size + hdr + 8, align.max(16));
        System.dealloc(ptr.sub(hdr), under);
    }
}

#[cfg(all(feature = "verif-alloc", not(miri)))]
#[global_allocator]
static GLOBAL: VerifAlloc = VerifAlloc;

pub fn enabled() -> bool {
    cfg!(all(feature = "verif-alloc", not(miri)))
}

pub fn thread_live() -> u64 {
    T_LIVE.with(|l| l.get())
}

pub fn thread_allocs() -> u64 {
    T_ALLOCS.with(|l| l.get())
}

/// Returns the peak since the last reset and restarts peak tracking from the current live size.
pub fn thread_peak_reset() -> u64 {
    let live = thread_live();
    T_PEAK.with(|p| {
        let old = p.get();
        p.set(live);
        old
    })
}

/// Allocations made inside `f` on this thread are simulated storage (excluded from counters).
pub fn storage_scope<R>(f: impl FnOnce() -> R) -> R {
    let prev = T_STORAGE.with(|s| s.replace(true));
    let r = f();
    T_STORAGE.with(|s| s.set(prev));
    r
}

pub fn arm_null(size: usize, align: usize) {
    ARM_ALIGN.store(align, Ordering::SeqCst);
    ARM_SIZE.store(size, Ordering::SeqCst);
}

pub fn disarm() -> bool {
    ARM_SIZE.swap(0, Ordering::SeqCst) != 0
}

/// Takes the first recorded misuse (if any) and clears the record.
pub fn take_error() -> Option<String> {
    let n = ERR_COUNT.swap(0, Ordering::SeqCst);
    if n == 0 {
        return None;
    }
    let kind = ERR_KIND.load(Ordering::SeqCst);
    let a = ERR_A.load(Ordering::SeqCst);
    let b = ERR_B.load(Ordering::SeqCst);
    Some(match kind {
        1 => format!(
            "dealloc with a mismatched layout: allocated (size {}, align {}), freed as (size {}, align {}) [{} report(s)]",
            a >> 8,
            a & 0xff,
            b >> 8,
            b & 0xff,
            n
        ),
        2 => format!("double free of a block (size {}, align {}) [{} report(s)]", a, b, n),
        3 => format!("free of a pointer this allocator never returned (size {}, align {}) [{} report(s)]", a, b, n),
        4 => format!("write past the end of an allocation of size {} (canary overwritten) [{} report(s)]", a, n),
        _ => format!("allocator misuse kind {} [{} report(s)]", kind, n),
    })
}
