//! Iterator properties: C04 range iterators, C05 prefix iterators.

use crate::case::*;
use crate::gen::{self, Tier, ALPHA};
use crate::model;
use crate::props_file::Verdict;
use crate::rng::{fnv1a, Rng};
use crate::run::{run_case, RunOpts, Stats};

fn viol(p: &str, oracle: &str, msg: String) -> Verdict {
    Some((Violation::new(p, oracle, msg), None))
}

fn bound_key(rng: &mut Rng, keys: &[Vec<u8>]) -> Vec<u8> {
    if keys.is_empty() || rng.chance(1, 6) {
        let l = rng.urange(0, 6);
        return (0..l).map(|_| if rng.chance(1, 2) { *rng.pick(&ALPHA) } else { rng.below(256) as u8 }).collect();
    }
    let i = match rng.below(5) {
        0 => 0,
        1 => keys.len() - 1,
        _ => rng.usize_below(keys.len()),
    };
    let k = keys[i].clone();
    match rng.below(6) {
        0 => {
            let mut a = k;
            a.push(0);
            a
        }
        1 => gen::pred(&k),
        2 if !k.is_empty() => k[..rng.urange(0, k.len() - 1)].to_vec(),
        _ => k,
    }
}

/// kind: 0 range, 1 prefix, 2 both
pub fn gen_queries(rng: &mut Rng, keys: &[Vec<u8>], n: usize, kind: u8) -> Vec<Query> {
    let mut out = Vec::new();
    for qi in 0..n {
        let want_range = match kind {
            0 => true,
            1 => false,
            _ => rng.chance(1, 2),
        };
        if want_range {
            let shape = qi % 9;
            let mk = |which: usize, rng: &mut Rng| -> Bnd {
                match which {
                    0 => Bnd::Unbounded,
                    1 => Bnd::Included(B(bound_key(rng, keys))),
                    _ => Bnd::Excluded(B(bound_key(rng, keys))),
                }
            };
            let mut start = mk(shape / 3, rng);
            let mut end = mk(shape % 3, rng);
            // equal bounds sometimes
            if rng.chance(1, 8) {
                if let (Bnd::Included(a), Bnd::Included(_)) | (Bnd::Included(a), Bnd::Excluded(_)) = (&start, &end) {
                    end = if rng.chance(1, 2) { Bnd::Included(a.clone()) } else { Bnd::Excluded(a.clone()) };
                } else if let (Bnd::Excluded(a), Bnd::Included(_)) | (Bnd::Excluded(a), Bnd::Excluded(_)) = (&start, &end) {
                    end = if rng.chance(1, 2) { Bnd::Included(a.clone()) } else { Bnd::Excluded(a.clone()) };
                }
            }
            if rng.chance(1, 10) {
                std::mem::swap(&mut start, &mut end); // inverted on purpose
            }
            out.push(Query::Range { start, end, rev: rng.chance(1, 2), spelling: rng.below(2) as u8 });
        } else {
            let prefix = match rng.below(9) {
                8 if !keys.is_empty() => {
                    // the byte string right after the prefix range is itself a stored key
                    let mut k = keys[rng.usize_below(keys.len())].clone();
                    match k.last_mut() {
                        Some(l) if *l > 0 => *l -= 1,
                        _ => k.push(0xFF),
                    }
                    k
                }
                0 => Vec::new(),
                1 => vec![0xFF; rng.urange(1, 4)],
                2 => {
                    // longer than any key
                    let l = keys.iter().map(|k| k.len()).max().unwrap_or(0) + 1;
                    let mut p = keys.last().cloned().unwrap_or_default();
                    p.resize(l, 0);
                    p
                }
                3 | 4 if !keys.is_empty() => {
                    let k = &keys[rng.usize_below(keys.len())];
                    k[..rng.urange(0, k.len())].to_vec()
                }
                5 if !keys.is_empty() => {
                    let mut k = keys[rng.usize_below(keys.len())].clone();
                    k.push(*rng.pick(&ALPHA));
                    k
                }
                6 if !keys.is_empty() => {
                    // a prefix ending in 0xFF bytes
                    let k = &keys[rng.usize_below(keys.len())];
                    let mut p = k[..rng.urange(0, k.len())].to_vec();
                    for _ in 0..rng.urange(1, 2) {
                        p.push(0xFF);
                    }
                    p
                }
                _ => {
                    let l = rng.urange(0, 4);
                    (0..l).map(|_| *rng.pick(&ALPHA)).collect()
                }
            };
            out.push(Query::Prefix { prefix: B(prefix), rev: rng.chance(1, 2) });
        }
    }
    out
}

/// Prefixes of exactly 2, 4, 8 or 16 bytes that end in one to three 0xFF bytes, in a file that
/// stores keys under the prefix, the prefix's true successor (the stem with its last byte
/// incremented, shorter than the prefix) and that successor followed by zero bytes.
fn gen_carry_prefix_case(rng: &mut Rng) -> Case {
    let mut keys = std::collections::BTreeSet::new();
    let mut queries = Vec::new();
    for _ in 0..rng.urange(1, 3) {
        let w = *rng.pick(&[2usize, 4, 8, 8, 8, 16]);
        let m = rng.urange(1, 3.min(w - 1));
        let mut stem: Vec<u8> = (0..w - m).map(|_| if rng.chance(1, 2) { *rng.pick(&ALPHA) } else { rng.below(255) as u8 }).collect();
        let l = stem.len() - 1;
        if stem[l] == 0xFF {
            stem[l] = 0x61;
        }
        let mut prefix = stem.clone();
        prefix.resize(w, 0xFF);
        let mut succ = stem.clone();
        succ[l] += 1;
        for _ in 0..rng.urange(1, 4) {
            let mut k = prefix.clone();
            for _ in 0..rng.urange(0, 3) {
                k.push(*rng.pick(&[0x00u8, 0x61, 0xFF]));
            }
            keys.insert(k);
        }
        if rng.chance(3, 4) {
            keys.insert(succ.clone());
        }
        for z in 1..=rng.urange(0, m + 1) {
            let mut k = succ.clone();
            k.resize(succ.len() + z, 0);
            keys.insert(k);
        }
        keys.insert(stem.clone());
        queries.push(Query::Prefix { prefix: B(prefix.clone()), rev: true });
        queries.push(Query::Prefix { prefix: B(prefix.clone()), rev: false });
        queries.push(Query::Prefix { prefix: B(stem.clone()), rev: true });
    }
    for _ in 0..rng.urange(0, 20) {
        let l = rng.urange(0, 9);
        keys.insert(rng.bytes(l));
    }
    let mut ents: Vec<(B, B)> = Vec::new();
    for (i, k) in keys.into_iter().enumerate() {
        let pad = rng.urange(0, 6);
        ents.push((B(k), B(gen::record(i as u32, pad))));
    }
    let mut knobs = gen::gen_knobs(rng, false);
    knobs.ctor = 0;
    let env = gen::gen_env(rng, true);
    Case::Iter(IterCase { spec: FileSpec { knobs, entries: Entries::Literal(ents) }, env, queries, v1: false, interleave: false })
}

fn gen_iter_case(rng: &mut Rng, tier: Tier, kind: u8) -> Case {
    if kind == 1 && rng.chance(1, 16) {
        return gen_carry_prefix_case(rng);
    }
    let mut spec = if rng.chance(1, 4) {
        gen::gen_layered_spec(rng, tier)
    } else {
        let knobs = gen::gen_knobs(rng, false);
        let n = rng.log_uniform(0, if tier == Tier::Quick { 1200 } else { 5000 }) as usize;
        let class = if kind == 1 {
            [gen::KeyClass::Alpha, gen::KeyClass::Alpha, gen::KeyClass::Random, gen::KeyClass::Counter][rng.usize_below(4)]
        } else {
            [gen::KeyClass::Alpha, gen::KeyClass::Counter, gen::KeyClass::Random, gen::KeyClass::Long, gen::KeyClass::Family][rng.usize_below(5)]
        };
        let ents = gen::gen_entries_with(rng, n, class, knobs.effective_block_size(), 128 * 1024);
        FileSpec { knobs, entries: Entries::Literal(ents) }
    };
    spec.knobs.ctor = 0;
    let keys: Vec<Vec<u8>> = spec.entries.materialize().into_iter().map(|(k, _)| k).collect();
    let nq = if tier == Tier::Quick { 36 } else { 90 };
    let queries = gen_queries(rng, &keys, nq, kind);
    let env = gen::gen_env(rng, true);
    // derived, not drawn: one case in five runs its queries two at a time on two reader clones
    let interleave = crate::rng::mix(env.stream, 0x1e7) % 5 == 0;
    Case::Iter(IterCase { spec, env, queries, v1: false, interleave })
}

pub fn gen_c04(rng: &mut Rng, tier: Tier) -> Case {
    gen_iter_case(rng, tier, 0)
}

pub fn gen_c05(rng: &mut Rng, tier: Tier) -> Case {
    gen_iter_case(rng, tier, 1)
}

pub fn check_iter(prop: &str, case: &Case, st: &mut Stats) -> Verdict {
    let Case::Iter(c) = case else { return viol(prop, "harness", "wrong case kind".into()) };
    let entries = c.spec.entries.materialize();
    let r = run_case(case, &c.env, &RunOpts::default());
    st.absorb_env(&r);
    if let Some(e) = &r.setup_err {
        return viol(prop, "setup", e.clone());
    }
    let exp = model::expect_iter(c, &entries);
    if c.interleave {
        st.c.inc("interleaved_iterator_pairs_cases");
        if c.env.shared_pos {
            st.c.inc("interleaved_on_handles_sharing_one_position");
        }
    }
    if let Some((_i, oracle, msg)) = model::compare(&r.recs, &exp) {
        return viol(prop, &oracle, msg);
    }
    let fh = r.files.first().map(|b| fnv1a(b)).unwrap_or(0);
    for q in &c.queries {
        let m = model::query_matches(q, &entries).len();
        let qh = fnv1a(format!("{:?}", q).as_bytes()) ^ fh;
        st.distinct.insert(qh);
        if m > 0 && m < entries.len() {
            st.nontrivial.insert(qh);
        }
        match q {
            Query::Range { start, end, rev, .. } => {
                let s = |b: &Bnd| match b {
                    Bnd::Unbounded => "U",
                    Bnd::Included(_) => "I",
                    Bnd::Excluded(_) => "E",
                };
                st.c.inc(&format!("shape.{}{}{}", s(start), s(end), if *rev { ".rev" } else { "" }));
                if m == 0 {
                    st.c.inc("probe.empty_result");
                }
                if let (Bnd::Included(a) | Bnd::Excluded(a), Bnd::Included(b) | Bnd::Excluded(b)) = (start, end) {
                    if a > b {
                        st.c.inc("probe.inverted_range");
                    }
                    if a == b {
                        st.c.inc("probe.equal_bounds");
                    }
                }
            }
            Query::Prefix { prefix, rev } => {
                st.c.inc(if *rev { "prefix.rev" } else { "prefix.fwd" });
                if prefix.0.is_empty() {
                    st.c.inc("probe.empty_prefix");
                }
                if !prefix.0.is_empty() && prefix.0.iter().all(|b| *b == 0xFF) {
                    st.c.inc("probe.all_ff_prefix");
                }
                if prefix.0.last() == Some(&0xFF) {
                    st.c.inc("probe.prefix_ending_in_ff");
                }
                if m == 0 {
                    st.c.inc("probe.prefix_matching_nothing");
                }
                // successor of the prefix is itself stored
                let mut succ = prefix.0.clone();
                while let Some(l) = succ.last_mut() {
                    if *l == 0xFF {
                        succ.pop();
                    } else {
                        *l += 1;
                        break;
                    }
                }
                if !succ.is_empty() && model::exact(&entries, &succ).is_some() {
                    st.c.inc("probe.prefix_successor_is_stored");
                }
            }
        }
    }
    None
}
