//! The simulated environment: disk files (`SimFile`), chunk storage (`SimFs`), merge
//! functions (`SimMerge`), with an I/O schedule, a fault plan and a crash plan, all derived
//! from the run's plan (never from a clock, an address or a global PRNG).

use std::borrow::Cow;
use std::cell::RefCell;
use std::collections::BTreeMap;
use std::fmt;
use std::io::{self, Read, Seek, SeekFrom, Write};
use std::rc::Rc;

use serde::{Deserialize, Serialize};

use crate::rng::{mix, Rng};

#[derive(Clone, Copy, Serialize, Deserialize, PartialEq, Eq, Debug, PartialOrd, Ord)]
pub enum IoMode {
    /// Transfers the whole buffer, what Vec/Cursor do.
    Whole,
    /// Transfers 1..=min(len,max) bytes.
    Chop { max: usize },
    /// Like Chop, and returns ErrorKind::Interrupted before a transfer with probability 1/den.
    ChopIntr { max: usize, den: u32 },
    /// Like Chop, and with probability 1/den a transfer is preceded by `burst` consecutive
    /// ErrorKind::Interrupted results (a signal storm).
    ChopBurst { max: usize, den: u32, burst: u32 },
}

#[derive(Clone, Copy, Serialize, Deserialize, PartialEq, Eq, Debug, PartialOrd, Ord)]
pub enum Role {
    Sink,
    Source,
    Chunk,
}

#[derive(Clone, Copy, PartialEq, Eq, Debug, PartialOrd, Ord, Serialize, Deserialize)]
pub enum IoKind {
    Read,
    Write,
    Flush,
    Seek,
    Create,
    Merge,
}

impl IoKind {
    pub fn name(self) -> &'static str {
        match self {
            IoKind::Read => "read",
            IoKind::Write => "write",
            IoKind::Flush => "flush",
            IoKind::Seek => "seek",
            IoKind::Create => "create",
            IoKind::Merge => "merge",
        }
    }
}

/// One injected failure: the k-th component call (shared clock over read/write/flush/seek on
/// every file, create, merge) fails with error `err`.
#[derive(Clone, Copy, Serialize, Deserialize, PartialEq, Eq, Debug)]
pub struct FaultSpec {
    pub k: u64,
    pub err: u8,
    /// every component call from the k-th on fails (a device that stays broken), not only the k-th
    #[serde(default)]
    pub sticky: bool,
    /// when non-zero the fault is not placed on the shared clock: it fails the n-th call of the
    /// merge function (k is ignored)
    #[serde(default)]
    pub merge_nth: u32,
    /// the component does not return an error: it panics (user code that unwinds through the
    /// library; what the library's objects do when they are dropped afterwards must stay sound)
    #[serde(default)]
    pub panic: bool,
}

pub const IO_ERR_KINDS: &[io::ErrorKind] = &[
    io::ErrorKind::Other,
    io::ErrorKind::PermissionDenied,
    io::ErrorKind::StorageFull,
    io::ErrorKind::BrokenPipe,
    io::ErrorKind::TimedOut,
    io::ErrorKind::WouldBlock,
    io::ErrorKind::UnexpectedEof,
    io::ErrorKind::InvalidData,
    io::ErrorKind::WriteZero,
    io::ErrorKind::Interrupted, // only used for seek / flush (read/write Interrupted is a retry request)
];

pub fn io_kind_for(err: u8, kind: IoKind) -> io::ErrorKind {
    let n = if matches!(kind, IoKind::Seek | IoKind::Flush) { IO_ERR_KINDS.len() } else { IO_ERR_KINDS.len() - 1 };
    IO_ERR_KINDS[err as usize % n]
}

#[derive(Debug)]
pub struct SimFault {
    pub k: u64,
}
impl fmt::Display for SimFault {
    fn fmt(&self, f: &mut fmt::Formatter) -> fmt::Result {
        write!(f, "simulated fault #{}", self.k)
    }
}
impl std::error::Error for SimFault {}

#[derive(Debug)]
pub struct SimCrash;
impl fmt::Display for SimCrash {
    fn fmt(&self, f: &mut fmt::Formatter) -> fmt::Result {
        write!(f, "simulated crash")
    }
}
impl std::error::Error for SimCrash {}

#[derive(Debug, PartialEq, Eq, Clone)]
pub struct SimMergeFault {
    pub k: u64,
}
impl fmt::Display for SimMergeFault {
    fn fmt(&self, f: &mut fmt::Formatter) -> fmt::Result {
        write!(f, "simulated merge fault #{}", self.k)
    }
}
impl std::error::Error for SimMergeFault {}

#[derive(Clone, Debug, PartialEq, Eq)]
pub struct FiredFault {
    pub k: u64,
    pub kind: IoKind,
    pub file: u32,
    pub role: Option<Role>,
    pub op: String,
    pub io_err: Option<io::ErrorKind>,
    pub create_variant: u8,
}

#[derive(Clone, Copy, Debug, PartialEq, Eq)]
pub struct IoEvent {
    pub file: u32,
    pub kind: IoKind,
    pub off: u64,
    pub req: u64,
    /// >= 0: bytes transferred / resulting position; -1 interrupted; -2 injected fault; -3 crash
    pub out: i64,
}

#[derive(Clone, Serialize, Deserialize, Debug, PartialEq)]
pub struct EnvPlan {
    /// Each new file draws its schedule mode from this palette (by a hash of stream and file id).
    pub modes: Vec<IoMode>,
    pub stream: u64,
    #[serde(default)]
    pub faults: Vec<FaultSpec>,
    /// (ordinal of the sink among sinks, bytes accepted before the process dies)
    #[serde(default)]
    pub crash: Option<u64>,
    /// Sinks and chunks buffer what they accept and make it durable (and readable) only at
    /// flush, like a BufWriter whose flush is never implied.
    #[serde(default)]
    pub buffered: bool,
    /// clones of a source share one file position (like two handles on the same `&File` or a
    /// `try_clone`d descriptor) instead of each having its own
    #[serde(default)]
    pub shared_pos: bool,
    /// Where a source handed to `Reader::new` stands before the first call (a reader recovered with
    /// `into_inner` and wrapped again, a descriptor somebody else has read from): 0 = start,
    /// n > 0 = byte n (possibly past the end), n < 0 = -(n+1) bytes before the end.
    #[serde(default)]
    pub src_start: i64,
}

impl EnvPlan {
    pub fn whole() -> EnvPlan {
        EnvPlan { modes: vec![IoMode::Whole], stream: 0, faults: vec![], crash: None, buffered: false, shared_pos: false, src_start: 0 }
    }
    pub fn is_whole(&self) -> bool {
        self.modes.iter().all(|m| *m == IoMode::Whole)
    }
}

#[derive(Default, Clone, Debug)]
pub struct Counters(pub BTreeMap<String, u64>);

impl Counters {
    pub fn add(&mut self, key: &str, n: u64) {
        if n == 0 {
            self.0.entry(key.to_string()).or_insert(0);
        } else {
            *self.0.entry(key.to_string()).or_insert(0) += n;
        }
    }
    pub fn inc(&mut self, key: &str) {
        self.add(key, 1)
    }
    pub fn max(&mut self, key: &str, v: u64) {
        let e = self.0.entry(key.to_string()).or_insert(0);
        if v > *e {
            *e = v;
        }
    }
    pub fn get(&self, key: &str) -> u64 {
        self.0.get(key).copied().unwrap_or(0)
    }
    pub fn merge(&mut self, other: &Counters) {
        for (k, v) in &other.0 {
            if k.starts_with("max.") {
                self.max(k, *v);
            } else {
                self.add(k, *v);
            }
        }
    }
}

pub struct EnvInner {
    pub plan: EnvPlan,
    pub clock: u64,
    pub merge_ticks: u64,
    pub fired: Vec<FiredFault>,
    pub crashed: bool,
    pub next_file: u32,
    pub handle_ctr: u64,
    pub record: bool,
    pub events: Vec<IoEvent>,
    pub digest: u64,
    pub io_calls: u64,
    pub fx: Counters,
    pub cur_op: String,
    // chunk storage observations
    pub creates: u64,
    pub live_chunks: i64,
    pub max_live_chunks: i64,
    pub chunk_bytes_written: u64,
    /// volume (key+value bytes) inserted since the previous create (maintained by the harness)
    pub window_volume: u64,
    pub max_window_volume: u64,
    pub create_windows: Vec<u64>,
    // merge function recorder
    pub record_merge: bool,
    pub merge_calls: Vec<(Vec<u8>, Vec<Vec<u8>>)>,
    pub merge_count: u64,
    // write classes hit (C11 reach)
    pub split_probe: Option<Box<dyn FnMut(u32, u64, u64)>>,
    pub chunk_datas: Vec<Rc<RefCell<Vec<u8>>>>,
    pub hole_big_writes: bool,
}

#[derive(Clone)]
pub struct Env(pub Rc<RefCell<EnvInner>>);

impl Env {
    pub fn new(plan: EnvPlan) -> Env {
        Env(Rc::new(RefCell::new(EnvInner {
            plan,
            clock: 0,
            merge_ticks: 0,
            fired: Vec::new(),
            crashed: false,
            next_file: 0,
            handle_ctr: 0,
            record: false,
            events: Vec::new(),
            digest: 0xcbf2_9ce4_8422_2325,
            io_calls: 0,
            fx: Counters::default(),
            cur_op: String::new(),
            creates: 0,
            live_chunks: 0,
            max_live_chunks: 0,
            chunk_bytes_written: 0,
            window_volume: 0,
            max_window_volume: 0,
            create_windows: Vec::new(),
            record_merge: false,
            merge_calls: Vec::new(),
            merge_count: 0,
            split_probe: None,
            chunk_datas: Vec::new(),
            hole_big_writes: false,
        })))
    }

    pub fn set_op(&self, op: &str) {
        let mut e = self.0.borrow_mut();
        if e.cur_op != op {
            e.cur_op.clear();
            e.cur_op.push_str(op);
        }
    }

    pub fn set_record(&self, on: bool) {
        self.0.borrow_mut().record = on;
    }

    pub fn take_events(&self) -> Vec<IoEvent> {
        std::mem::take(&mut self.0.borrow_mut().events)
    }

    pub fn clock(&self) -> u64 {
        self.0.borrow().clock
    }

    pub fn fired(&self) -> Vec<FiredFault> {
        self.0.borrow().fired.clone()
    }

    pub fn fired_len(&self) -> usize {
        self.0.borrow().fired.len()
    }

    pub fn crashed(&self) -> bool {
        self.0.borrow().crashed
    }

    pub fn digest(&self) -> u64 {
        self.0.borrow().digest
    }

    pub fn counters(&self) -> Counters {
        self.0.borrow().fx.clone()
    }

    pub fn io_calls(&self) -> u64 {
        self.0.borrow().io_calls
    }

    pub fn new_sink(&self) -> SimFile {
        SimFile::create(self, Role::Sink, Vec::new())
    }

    pub fn new_source(&self, bytes: Vec<u8>) -> SimFile {
        let start = self.0.borrow().plan.src_start;
        let len = bytes.len() as u64;
        let f = SimFile::create(self, Role::Source, bytes);
        if start != 0 {
            let pos = if start > 0 { start as u64 } else { len.saturating_sub((-(start + 1)) as u64) };
            f.pos_cell.set(pos);
            self.0.borrow_mut().fx.inc("source.opened_at_nonzero_position");
        }
        f
    }

    /// A sink that keeps what it is given in extents and, while `hole_big_writes` is set, turns
    /// every write of 32 KiB or more into a hole (counted, not stored).
    pub fn new_sparse_sink(&self) -> (SimFile, Rc<RefCell<SparseData>>) {
        let mut f = SimFile::create(self, Role::Sink, Vec::new());
        let d = Rc::new(RefCell::new(SparseData::default()));
        f.sparse = Some(d.clone());
        f.buffered = false;
        (f, d)
    }

    pub fn new_sparse_source(&self, d: Rc<RefCell<SparseData>>) -> SimFile {
        let mut f = SimFile::create(self, Role::Source, Vec::new());
        f.sparse = Some(d);
        f
    }

    /// A source with `len` virtual zero bytes inserted at offset `at` of `bytes`.
    pub fn new_holed_source(&self, bytes: Vec<u8>, at: u64, len: u64) -> SimFile {
        let mut f = SimFile::create(self, Role::Source, bytes);
        f.hole = Some((at, len));
        f
    }

    pub fn fs(&self) -> SimFs {
        SimFs { env: self.clone() }
    }

    pub fn merge_fn(&self, kind: MergeKind) -> SimMerge {
        SimMerge { env: self.clone(), kind }
    }
}

impl EnvInner {
    fn mode_for(&self, file: u32) -> IoMode {
        if self.plan.modes.is_empty() {
            return IoMode::Whole;
        }
        let h = mix(self.plan.stream, 0xF11E_0000 + file as u64);
        self.plan.modes[(h % self.plan.modes.len() as u64) as usize]
    }

    fn log(&mut self, ev: IoEvent) {
        let mut h = self.digest;
        for x in [ev.file as u64, ev.kind as u64, ev.off, ev.req, ev.out as u64] {
            h = (h ^ x).wrapping_mul(0x0000_0100_0000_01b3);
        }
        self.digest = h;
        if self.record {
            self.events.push(ev);
        }
    }

    /// Advances the shared component-call clock; returns Some(fault) if this call must fail.
    fn tick(&mut self, kind: IoKind, file: u32, role: Option<Role>) -> Option<FaultSpec> {
        self.clock += 1;
        let clock = self.clock;
        if kind == IoKind::Merge {
            self.merge_ticks += 1;
        }
        let mt = self.merge_ticks;
        let hit = self
            .plan
            .faults
            .iter()
            .copied()
            .find(|f| if f.merge_nth > 0 { kind == IoKind::Merge && mt == f.merge_nth as u64 } else { f.k == clock || (f.sticky && clock > f.k) })
            .map(|f| if f.merge_nth > 0 { FaultSpec { k: clock, ..f } } else { f });
        if let Some(f) = hit {
            let io_err = match kind {
                IoKind::Read | IoKind::Write | IoKind::Flush | IoKind::Seek => Some(io_kind_for(f.err, kind)),
                IoKind::Create => Some(io_kind_for(f.err / 4, IoKind::Read)),
                IoKind::Merge => None,
            };
            self.fired.push(FiredFault {
                k: f.k,
                kind,
                file,
                role,
                op: self.cur_op.clone(),
                io_err,
                create_variant: f.err % 4,
            });
            self.fx.inc(&format!("fault.{}", kind.name()));
            if f.panic {
                self.fx.inc("fault.component_panicked");
                panic!("SIM-COMPONENT-PANIC: the user-supplied component panicked in its {} call (component call {})", kind.name(), f.k);
            }
        }
        hit
    }
}

/// A file larger than memory: only the extents that were stored exist, everything else is a hole.
#[derive(Default)]
pub struct SparseData {
    /// (logical offset, bytes), ascending and non-overlapping
    pub ext: Vec<(u64, Vec<u8>)>,
    pub len: u64,
}

impl SparseData {
    /// bytes [off, off+n) if they lie inside one stored extent
    pub fn read_at(&self, off: u64, n: usize) -> Option<&[u8]> {
        let i = self.ext.partition_point(|(s, _)| *s <= off).checked_sub(1)?;
        let (s, b) = &self.ext[i];
        let rel = (off - s) as usize;
        if rel + n <= b.len() {
            Some(&b[rel..rel + n])
        } else {
            None
        }
    }
}

pub struct SimFile {
    env: Env,
    pub id: u32,
    pub role: Role,
    data: Rc<RefCell<Vec<u8>>>,
    pos_cell: Rc<std::cell::Cell<u64>>,
    mode: IoMode,
    rng: Rng,
    /// remaining Interrupted results of the current burst (ChopBurst)
    burst_left: u32,
    /// accepted but not yet flushed bytes (buffered sinks/chunks only); they logically follow `data`
    pending: Vec<u8>,
    buffered: bool,
    /// sparse sources: `hole.1` virtual zero bytes sit at logical offset `hole.0` (a file larger than
    /// memory: the bytes after the hole live at logical offsets >= hole.0 + hole.1)
    hole: Option<(u64, u64)>,
    /// sparse mode (files beyond 4 GiB): content lives in extents instead of `data`
    sparse: Option<Rc<RefCell<SparseData>>>,
}

impl SimFile {
    fn create(env: &Env, role: Role, bytes: Vec<u8>) -> SimFile {
        let buffered = {
            let e = env.0.borrow();
            e.plan.buffered && e.plan.crash.is_none() && role != Role::Source
        };
        let (id, mode, seed) = {
            let mut e = env.0.borrow_mut();
            let id = e.next_file;
            e.next_file += 1;
            e.handle_ctr += 1;
            if role == Role::Chunk {
                e.live_chunks += 1;
                if e.live_chunks > e.max_live_chunks {
                    e.max_live_chunks = e.live_chunks;
                }
            }
            (id, e.mode_for(id), mix(e.plan.stream, (id as u64) << 20 | e.handle_ctr))
        };
        SimFile {
            env: env.clone(),
            id,
            role,
            data: Rc::new(RefCell::new(bytes)),
            pos_cell: Rc::new(std::cell::Cell::new(0)),
            mode,
            rng: Rng::new(seed),
            burst_left: 0,
            pending: Vec::new(),
            buffered,
            hole: None,
            sparse: None,
        }
    }

    pub fn bytes(&self) -> Vec<u8> {
        self.data.borrow().clone()
    }

    pub fn len(&self) -> usize {
        self.data.borrow().len()
    }

    pub fn data_rc(&self) -> Rc<RefCell<Vec<u8>>> {
        self.data.clone()
    }

    fn fault_err(kind: io::ErrorKind, k: u64) -> io::Error {
        io::Error::new(kind, SimFault { k })
    }

    /// Decide how many of `len` bytes this call transfers (None = Interrupted).
    fn schedule(&mut self, len: usize) -> Option<usize> {
        match self.mode {
            IoMode::Whole => Some(len),
            IoMode::Chop { max } => Some(1 + self.rng.usize_below(len.min(max.max(1)))),
            IoMode::ChopIntr { max, den } => {
                if self.rng.chance(1, den.max(2) as u64) {
                    None
                } else {
                    Some(1 + self.rng.usize_below(len.min(max.max(1))))
                }
            }
            IoMode::ChopBurst { max, den, burst } => {
                if self.burst_left > 0 {
                    self.burst_left -= 1;
                    return None;
                }
                if self.rng.chance(1, den.max(2) as u64) {
                    self.burst_left = burst.saturating_sub(1);
                    None
                } else {
                    Some(1 + self.rng.usize_below(len.min(max.max(1))))
                }
            }
        }
    }
}

impl Clone for SimFile {
    fn clone(&self) -> SimFile {
        let seed = {
            let mut e = self.env.0.borrow_mut();
            e.handle_ctr += 1;
            if self.role == Role::Chunk {
                e.live_chunks += 1;
                if e.live_chunks > e.max_live_chunks {
                    e.max_live_chunks = e.live_chunks;
                }
            }
            mix(e.plan.stream, (self.id as u64) << 20 | e.handle_ctr)
        };
        SimFile {
            env: self.env.clone(),
            id: self.id,
            role: self.role,
            data: self.data.clone(),
            pos_cell: if self.env.0.borrow().plan.shared_pos { self.pos_cell.clone() } else { Rc::new(std::cell::Cell::new(self.pos_cell.get())) },
            mode: self.mode,
            rng: Rng::new(seed),
            burst_left: 0,
            pending: Vec::new(),
            buffered: false,
            hole: self.hole,
            sparse: self.sparse.clone(),
        }
    }
}

impl Drop for SimFile {
    fn drop(&mut self) {
        if self.role == Role::Chunk {
            if let Ok(mut e) = self.env.0.try_borrow_mut() {
                e.live_chunks -= 1;
            }
        }
    }
}

impl Read for SimFile {
    fn read(&mut self, buf: &mut [u8]) -> io::Result<usize> {
        let env = self.env.clone();
        let mut e = env.0.borrow_mut();
        e.io_calls += 1;
        let off = self.pos_cell.get();
        if let Some(f) = e.tick(IoKind::Read, self.id, Some(self.role)) {
            e.log(IoEvent { file: self.id, kind: IoKind::Read, off, req: buf.len() as u64, out: -2 });
            return Err(Self::fault_err(io_kind_for(f.err, IoKind::Read), f.k));
        }
        if let Some(sp) = self.sparse.clone() {
            let sp = sp.borrow();
            if self.pos_cell.get() >= sp.len || buf.is_empty() {
                e.log(IoEvent { file: self.id, kind: IoKind::Read, off, req: buf.len() as u64, out: 0 });
                return Ok(0);
            }
            let i = sp.ext.partition_point(|(s, _)| *s <= self.pos_cell.get()).checked_sub(1);
            let hit = i.and_then(|i| {
                let (s0, b) = &sp.ext[i];
                let rel = (self.pos_cell.get() - s0) as usize;
                if rel < b.len() {
                    Some((i, rel))
                } else {
                    None
                }
            });
            let Some((i, rel)) = hit else {
                e.fx.inc("fired.read_inside_sparse_hole");
                e.log(IoEvent { file: self.id, kind: IoKind::Read, off, req: buf.len() as u64, out: -5 });
                return Err(io::Error::new(io::ErrorKind::InvalidData, "read inside a hole of the simulated sparse file (nothing is stored there)"));
            };
            let b = &sp.ext[i].1;
            let want = buf.len().min(b.len() - rel);
            let n = match self.schedule(want) {
                None => {
                    e.fx.inc("fired.eintr_read");
                    e.log(IoEvent { file: self.id, kind: IoKind::Read, off, req: buf.len() as u64, out: -1 });
                    return Err(io::Error::from(io::ErrorKind::Interrupted));
                }
                Some(n) => n,
            };
            buf[..n].copy_from_slice(&b[rel..rel + n]);
            self.pos_cell.set(self.pos_cell.get() + n as u64);
            e.log(IoEvent { file: self.id, kind: IoKind::Read, off, req: buf.len() as u64, out: n as i64 });
            return Ok(n);
        }
        let (hole_at, hole_len) = self.hole.unwrap_or((u64::MAX, 0));
        if self.pos_cell.get() >= hole_at && self.pos_cell.get() < hole_at.saturating_add(hole_len) {
            // No block lives inside the hole: a reader that ends up here has mis-computed an offset.
            // Serving terabytes of zeros would only exhaust memory, so the read fails at once.
            e.fx.inc("fired.read_inside_sparse_hole");
            e.log(IoEvent { file: self.id, kind: IoKind::Read, off, req: buf.len() as u64, out: -5 });
            return Err(io::Error::new(io::ErrorKind::InvalidData, "read inside the sparse hole of the simulated file (no block is stored there)"));
        }
        let data = self.data.borrow();
        let logical_len = data.len() as u64 + hole_len;
        // never serve a read across the hole boundaries in one call (keeps the mapping simple)
        let mut avail = logical_len.saturating_sub(self.pos_cell.get());
        if self.pos_cell.get() < hole_at {
            avail = avail.min(hole_at - self.pos_cell.get());
        } else if self.pos_cell.get() < hole_at.saturating_add(hole_len) {
            avail = avail.min(hole_at + hole_len - self.pos_cell.get());
        }
        let want = (buf.len() as u64).min(avail) as usize;
        if want == 0 {
            e.log(IoEvent { file: self.id, kind: IoKind::Read, off, req: buf.len() as u64, out: 0 });
            return Ok(0);
        }
        drop(data);
        let n = match self.schedule(want) {
            None => {
                e.fx.inc("fired.eintr_read");
                e.log(IoEvent { file: self.id, kind: IoKind::Read, off, req: buf.len() as u64, out: -1 });
                return Err(io::Error::from(io::ErrorKind::Interrupted));
            }
            Some(n) => n,
        };
        if n < want {
            e.fx.inc("fired.short_read");
        }
        let data = self.data.borrow();
        if self.pos_cell.get() >= hole_at && self.pos_cell.get() < hole_at.saturating_add(hole_len) {
            for b in buf[..n].iter_mut() {
                *b = 0;
            }
        } else {
            let phys = if self.pos_cell.get() >= hole_at { self.pos_cell.get() - hole_len } else { self.pos_cell.get() } as usize;
            buf[..n].copy_from_slice(&data[phys..phys + n]);
        }
        self.pos_cell.set(self.pos_cell.get() + n as u64);
        e.log(IoEvent { file: self.id, kind: IoKind::Read, off, req: buf.len() as u64, out: n as i64 });
        Ok(n)
    }
}

impl Write for SimFile {
    fn write(&mut self, buf: &[u8]) -> io::Result<usize> {
        let env = self.env.clone();
        let mut e = env.0.borrow_mut();
        e.io_calls += 1;
        let off = self.pos_cell.get();
        if let Some(f) = e.tick(IoKind::Write, self.id, Some(self.role)) {
            e.log(IoEvent { file: self.id, kind: IoKind::Write, off, req: buf.len() as u64, out: -2 });
            if io_kind_for(f.err, IoKind::Write) == io::ErrorKind::WriteZero && (f.err / 9) % 2 == 1 && !buf.is_empty() {
                // the other way a sink reports "cannot take any more": it accepts zero bytes
                e.fx.inc("fired.write_accepts_zero_bytes");
                return Ok(0);
            }
            return Err(Self::fault_err(io_kind_for(f.err, IoKind::Write), f.k));
        }
        if buf.is_empty() {
            e.log(IoEvent { file: self.id, kind: IoKind::Write, off, req: 0, out: 0 });
            return Ok(0);
        }
        if let Some(sp) = self.sparse.clone() {
            let mut sp = sp.borrow_mut();
            let n = buf.len();
            if self.pos_cell.get() != sp.len {
                return Err(io::Error::new(io::ErrorKind::Unsupported, "sparse sinks are append-only"));
            }
            if e.hole_big_writes && n >= 32 * 1024 {
                e.fx.inc("fired.big_write_turned_into_hole");
            } else {
                let at = sp.len;
                crate::alloc::storage_scope(|| match sp.ext.last_mut() {
                    Some((s0, b)) if *s0 + b.len() as u64 == at => b.extend_from_slice(buf),
                    _ => sp.ext.push((at, buf.to_vec())),
                });
            }
            sp.len += n as u64;
            self.pos_cell.set(self.pos_cell.get() + n as u64);
            e.log(IoEvent { file: self.id, kind: IoKind::Write, off, req: n as u64, out: n as i64 });
            return Ok(n);
        }
        let mut want = buf.len();
        if self.role == Role::Sink {
            if let Some(t) = e.plan.crash {
                let room = t.saturating_sub(self.data.borrow().len() as u64) as usize;
                if room == 0 {
                    e.crashed = true;
                    e.fx.inc("fired.crash");
                    e.log(IoEvent { file: self.id, kind: IoKind::Write, off, req: buf.len() as u64, out: -3 });
                    return Err(io::Error::new(io::ErrorKind::Other, SimCrash));
                }
                want = want.min(room);
            }
        }
        let n = match self.schedule(want) {
            None => {
                e.fx.inc("fired.eintr_write");
                e.log(IoEvent { file: self.id, kind: IoKind::Write, off, req: buf.len() as u64, out: -1 });
                return Err(io::Error::from(io::ErrorKind::Interrupted));
            }
            Some(n) => n,
        };
        if n < buf.len() {
            e.fx.inc("fired.short_write");
        }
        if let Some(p) = e.split_probe.as_mut() {
            p(self.id, off, n as u64);
        }
        let appending = self.pos_cell.get() as usize == self.data.borrow().len() + self.pending.len();
        if self.buffered && appending {
            crate::alloc::storage_scope(|| self.pending.extend_from_slice(&buf[..n]));
            if self.role == Role::Chunk {
                e.chunk_bytes_written += n as u64;
            }
            self.pos_cell.set(self.pos_cell.get() + n as u64);
            e.fx.inc("fired.buffered_write");
            e.log(IoEvent { file: self.id, kind: IoKind::Write, off, req: buf.len() as u64, out: n as i64 });
            return Ok(n);
        }
        crate::alloc::storage_scope(|| {
            let mut data = self.data.borrow_mut();
            let pos = self.pos_cell.get() as usize;
            if pos > data.len() {
                data.resize(pos, 0);
            }
            let overlap = (data.len() - pos).min(n);
            data[pos..pos + overlap].copy_from_slice(&buf[..overlap]);
            data.extend_from_slice(&buf[overlap..n]);
        });
        if self.role == Role::Chunk {
            e.chunk_bytes_written += n as u64;
        }
        self.pos_cell.set(self.pos_cell.get() + n as u64);
        e.log(IoEvent { file: self.id, kind: IoKind::Write, off, req: buf.len() as u64, out: n as i64 });
        Ok(n)
    }

    /// Vectored writes are scheduled like plain ones over the concatenation of the buffers, so a
    /// single call may stop anywhere, including inside the first buffer or across a boundary.
    fn write_vectored(&mut self, bufs: &[io::IoSlice<'_>]) -> io::Result<usize> {
        let total: usize = bufs.iter().map(|b| b.len()).sum();
        let mut joined = Vec::with_capacity(total);
        for b in bufs {
            joined.extend_from_slice(b);
        }
        self.env.0.borrow_mut().fx.inc("fired.vectored_write_call");
        self.write(&joined)
    }

    fn flush(&mut self) -> io::Result<()> {
        let env = self.env.clone();
        let mut e = env.0.borrow_mut();
        e.io_calls += 1;
        if let Some(f) = e.tick(IoKind::Flush, self.id, Some(self.role)) {
            e.log(IoEvent { file: self.id, kind: IoKind::Flush, off: self.pos_cell.get(), req: 0, out: -2 });
            return Err(Self::fault_err(io_kind_for(f.err, IoKind::Flush), f.k));
        }
        if !self.pending.is_empty() {
            let pending = std::mem::take(&mut self.pending);
            crate::alloc::storage_scope(|| self.data.borrow_mut().extend_from_slice(&pending));
            e.fx.inc("fired.flush_made_data_durable");
        }
        e.log(IoEvent { file: self.id, kind: IoKind::Flush, off: self.pos_cell.get(), req: 0, out: 0 });
        Ok(())
    }
}

impl Seek for SimFile {
    fn seek(&mut self, to: SeekFrom) -> io::Result<u64> {
        let env = self.env.clone();
        let mut e = env.0.borrow_mut();
        e.io_calls += 1;
        let (code, arg) = match to {
            SeekFrom::Start(x) => (0u64, x),
            SeekFrom::End(x) => (1, x as u64),
            SeekFrom::Current(x) => (2, x as u64),
        };
        if let Some(f) = e.tick(IoKind::Seek, self.id, Some(self.role)) {
            e.log(IoEvent { file: self.id, kind: IoKind::Seek, off: arg, req: code, out: -2 });
            return Err(Self::fault_err(io_kind_for(f.err, IoKind::Seek), f.k));
        }
        let len = match &self.sparse {
            Some(sp) => sp.borrow().len as i128,
            None => (self.data.borrow().len() + self.pending.len()) as i128 + self.hole.map(|h| h.1 as i128).unwrap_or(0),
        };
        let target: i128 = match to {
            SeekFrom::Start(x) => x as i128,
            SeekFrom::End(x) => len + x as i128,
            SeekFrom::Current(x) => self.pos_cell.get() as i128 + x as i128,
        };
        if target < 0 || target > u64::MAX as i128 {
            e.log(IoEvent { file: self.id, kind: IoKind::Seek, off: arg, req: code, out: -4 });
            return Err(io::Error::new(
                io::ErrorKind::InvalidInput,
                "invalid seek to a negative or overflowing position",
            ));
        }
        self.pos_cell.set(target as u64);
        e.log(IoEvent { file: self.id, kind: IoKind::Seek, off: arg, req: code, out: target as i64 });
        Ok(self.pos_cell.get())
    }
}

// ---------------------------------------------------------------------------------------
// Chunk storage

pub enum SimCreateError {
    Io(io::Error),
    GrenadIo(io::Error),
    InvalidCompression,
    InvalidFormat,
}

impl From<SimCreateError> for grenad::Error {
    fn from(e: SimCreateError) -> grenad::Error {
        match e {
            SimCreateError::Io(e) => grenad::Error::from(e),
            SimCreateError::GrenadIo(e) => grenad::Error::Io(e),
            SimCreateError::InvalidCompression => grenad::Error::InvalidCompressionType,
            SimCreateError::InvalidFormat => grenad::Error::InvalidFormatVersion,
        }
    }
}

#[derive(Clone)]
pub struct SimFs {
    env: Env,
}

impl grenad::ChunkCreator for SimFs {
    type Chunk = SimFile;
    type Error = SimCreateError;

    fn create(&self) -> Result<SimFile, SimCreateError> {
        {
            let mut e = self.env.0.borrow_mut();
            if let Some(f) = e.tick(IoKind::Create, u32::MAX, None) {
                let kind = io_kind_for(f.err / 4, IoKind::Read);
                return Err(match f.err % 4 {
                    0 => SimCreateError::Io(io::Error::new(kind, SimFault { k: f.k })),
                    1 => SimCreateError::GrenadIo(io::Error::new(kind, SimFault { k: f.k })),
                    2 => SimCreateError::InvalidCompression,
                    _ => SimCreateError::InvalidFormat,
                });
            }
        }
        {
            let mut e = self.env.0.borrow_mut();
            e.creates += 1;
            let w = e.window_volume;
            e.create_windows.push(w);
            if w > e.max_window_volume {
                e.max_window_volume = w;
            }
            e.window_volume = 0;
        }
        let f = SimFile::create(&self.env, Role::Chunk, Vec::new());
        self.env.0.borrow_mut().chunk_datas.push(f.data_rc());
        Ok(f)
    }
}

// ---------------------------------------------------------------------------------------
// Merge functions

#[derive(Clone, Copy, Serialize, Deserialize, PartialEq, Eq, Debug)]
pub enum MergeKind {
    /// Concatenation: associative, returns a lone value unchanged, reveals order/multiplicity.
    Concat,
    First,
    Last,
    /// Values joined with a 0x1F separator: associative, returns a lone value unchanged, and —
    /// unlike concatenation — shows where an empty value stands among the others.
    Join,
    /// For keys held by two or more sources: a BORROWED proper prefix (the first half) of the first
    /// value — a slice that starts where an input starts but is shorter. A lone value is returned
    /// unchanged. Not associative: used for single-level merges (the merger), never for the sorter.
    BorrowedPrefix,
}

#[derive(Clone)]
pub struct SimMerge {
    env: Env,
    pub kind: MergeKind,
}

impl grenad::MergeFunction for SimMerge {
    type Error = SimMergeFault;

    fn merge<'a>(&self, key: &[u8], values: &[Cow<'a, [u8]>]) -> Result<Cow<'a, [u8]>, SimMergeFault> {
        {
            let mut e = self.env.0.borrow_mut();
            e.merge_count += 1;
            if e.record_merge {
                let vals = values.iter().map(|v| v.to_vec()).collect();
                e.merge_calls.push((key.to_vec(), vals));
            }
            if let Some(f) = e.tick(IoKind::Merge, u32::MAX, None) {
                return Err(SimMergeFault { k: f.k });
            }
        }
        Ok(match self.kind {
            MergeKind::Concat => {
                if values.len() == 1 {
                    values[0].clone()
                } else {
                    Cow::Owned(values.iter().flat_map(|v| v.iter().copied()).collect())
                }
            }
            MergeKind::First => values[0].clone(),
            MergeKind::Last => values[values.len() - 1].clone(),
            MergeKind::BorrowedPrefix => {
                if values.len() == 1 {
                    values[0].clone()
                } else {
                    match &values[0] {
                        Cow::Borrowed(s) => Cow::Borrowed(&s[..s.len() / 2]),
                        Cow::Owned(v) => Cow::Owned(v[..v.len() / 2].to_vec()),
                    }
                }
            }
            MergeKind::Join => {
                if values.len() == 1 {
                    values[0].clone()
                } else {
                    let mut out = Vec::new();
                    for (i, v) in values.iter().enumerate() {
                        if i > 0 {
                            out.push(0x1F);
                        }
                        out.extend_from_slice(v);
                    }
                    Cow::Owned(out)
                }
            }
        })
    }
}
