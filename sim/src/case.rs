//! Serializable descriptions of one simulated run (the replay file format).

use serde::{Deserialize, Deserializer, Serialize, Serializer};

use crate::env::{EnvPlan, MergeKind};

/// Bytes, serialized as a hex string.
#[derive(Clone, PartialEq, Eq, PartialOrd, Ord, Debug, Default)]
pub struct B(pub Vec<u8>);

impl Serialize for B {
    fn serialize<S: Serializer>(&self, s: S) -> Result<S::Ok, S::Error> {
        let mut out = String::with_capacity(self.0.len() * 2);
        for b in &self.0 {
            out.push(char::from_digit((*b >> 4) as u32, 16).unwrap());
            out.push(char::from_digit((*b & 15) as u32, 16).unwrap());
        }
        s.serialize_str(&out)
    }
}

impl<'de> Deserialize<'de> for B {
    fn deserialize<D: Deserializer<'de>>(d: D) -> Result<B, D::Error> {
        let s = String::deserialize(d)?;
        let bytes = s.as_bytes();
        if bytes.len() % 2 != 0 {
            return Err(serde::de::Error::custom("odd hex length"));
        }
        let mut out = Vec::with_capacity(bytes.len() / 2);
        for pair in bytes.chunks(2) {
            let hi = (pair[0] as char).to_digit(16).ok_or_else(|| serde::de::Error::custom("bad hex"))?;
            let lo = (pair[1] as char).to_digit(16).ok_or_else(|| serde::de::Error::custom("bad hex"))?;
            out.push((hi * 16 + lo) as u8);
        }
        Ok(B(out))
    }
}

#[derive(Clone, Serialize, Deserialize, Debug, PartialEq)]
pub struct Knobs {
    /// 0 None, 1 SnappyPre05, 2 Zlib, 3 Lz4, 4 Zstd, 5 Snappy
    pub codec: u8,
    pub level: u32,
    /// None = do not call block_size()
    pub block_size: Option<usize>,
    /// None = do not call index_key_interval()
    pub interval: Option<usize>,
    pub levels: u8,
    /// construction path: 0 builder().build(sink) 1 Writer::new (defaults only) 2 builder().memory()
    pub ctor: u8,
    /// 0 into_inner, 1 finish
    pub fin: u8,
}

impl Knobs {
    pub fn default_knobs() -> Knobs {
        Knobs { codec: 0, level: 0, block_size: None, interval: None, levels: 0, ctor: 0, fin: 0 }
    }
    pub fn effective_block_size(&self) -> usize {
        match self.block_size {
            None => 8192,
            Some(b) => b.max(1024),
        }
    }
    pub fn effective_interval(&self) -> usize {
        self.interval.unwrap_or(8)
    }
}

#[derive(Clone, Serialize, Deserialize, Debug, PartialEq)]
pub enum Entries {
    Literal(Vec<(B, B)>),
    /// n big-endian counters of `width` bytes starting at `start` with `stride`; value = `vlen` bytes derived from the key
    Counter { n: u64, width: u8, start: u64, stride: u64, vlen: u32 },
    /// the keys of `Counter`, values of `vlen` incompressible bytes (a splitmix64 stream keyed by
    /// `seed` and the key): blocks that stay large under every codec
    Noise { n: u64, width: u8, start: u64, stride: u64, vlen: u32, seed: u64 },
}

impl Entries {
    pub fn len(&self) -> usize {
        match self {
            Entries::Literal(v) => v.len(),
            Entries::Counter { n, .. } => *n as usize,
            Entries::Noise { n, .. } => *n as usize,
        }
    }
    pub fn materialize(&self) -> Vec<(Vec<u8>, Vec<u8>)> {
        let mut out = Vec::with_capacity(self.len());
        self.for_each(|k, v| {
            out.push((k.to_vec(), v.to_vec()));
            true
        });
        out
    }

    /// Visits the entries in order without materializing them; stops when `f` returns false.
    pub fn for_each(&self, mut f: impl FnMut(&[u8], &[u8]) -> bool) {
        match self {
            Entries::Literal(v) => {
                for (k, v) in v {
                    if !f(&k.0, &v.0) {
                        return;
                    }
                }
            }
            Entries::Counter { n, width, start, stride, vlen } => {
                let mut val = Vec::with_capacity(*vlen as usize);
                for i in 0..*n {
                    let x = start.wrapping_add(i.wrapping_mul(*stride));
                    let kb = x.to_be_bytes();
                    let key = &kb[8 - *width as usize..];
                    val.clear();
                    // the first (up to 8) value bytes identify the insert, so values of equal keys differ
                    let m = (*vlen as usize).min(8);
                    val.extend_from_slice(&kb[8 - m..]);
                    let mut j = m as u32;
                    while (val.len() as u32) < *vlen {
                        val.push((x.wrapping_mul(31).wrapping_add(j as u64 * 7) & 0xff) as u8);
                        j += 1;
                    }
                    if !f(key, &val) {
                        return;
                    }
                }
            }
            Entries::Noise { n, width, start, stride, vlen, seed } => {
                let mut val = vec![0u8; *vlen as usize];
                for i in 0..*n {
                    let x = start.wrapping_add(i.wrapping_mul(*stride));
                    let kb = x.to_be_bytes();
                    let key = &kb[8 - *width as usize..];
                    let mut st = crate::rng::mix(*seed, x);
                    for c in val.chunks_mut(8) {
                        let w = crate::rng::splitmix64(&mut st).to_le_bytes();
                        c.copy_from_slice(&w[..c.len()]);
                    }
                    if !f(key, &val) {
                        return;
                    }
                }
            }
        }
    }
}

#[derive(Clone, Serialize, Deserialize, Debug, PartialEq)]
pub struct FileSpec {
    pub knobs: Knobs,
    pub entries: Entries,
}

#[derive(Clone, Serialize, Deserialize, Debug, PartialEq)]
pub enum Op {
    First,
    Last,
    Next,
    Prev,
    Ge(B),
    Le(B),
    Eq(B),
    Reset,
    /// clone cursor `from` into a new cursor slot
    CloneFrom,
    Current,
    /// next × k
    NextN(u32),
    PrevN(u32),
}

#[derive(Clone, Serialize, Deserialize, Debug, PartialEq)]
pub struct CursorStep {
    pub cur: u8,
    pub op: Op,
}

#[derive(Clone, Serialize, Deserialize, Debug, PartialEq)]
pub enum Bnd {
    Unbounded,
    Included(B),
    Excluded(B),
}

#[derive(Clone, Serialize, Deserialize, Debug, PartialEq)]
pub enum Query {
    Range { start: Bnd, end: Bnd, rev: bool, spelling: u8 },
    Prefix { prefix: B, rev: bool },
}

#[derive(Clone, Serialize, Deserialize, Debug, PartialEq)]
pub struct FileCase {
    pub spec: FileSpec,
    pub env: EnvPlan,
    /// write a V1 twin and query it (C10)
    #[serde(default)]
    pub v1: bool,
    /// a file beyond 4 GiB: `fillers` entries of `filler_len` bytes (kept as holes) then `small` entries
    #[serde(default)]
    pub big: Option<BigSpec>,
}

#[derive(Clone, Serialize, Deserialize, Debug, PartialEq)]
pub struct BigSpec {
    pub fillers: u32,
    pub filler_len: u32,
    pub small: u32,
}

#[derive(Clone, Serialize, Deserialize, Debug, PartialEq)]
pub struct CursorCase {
    pub spec: FileSpec,
    pub env: EnvPlan,
    pub steps: Vec<CursorStep>,
    /// every step runs on a fresh (or reset) cursor: C02 style
    #[serde(default)]
    pub fresh_each: bool,
    #[serde(default)]
    pub v1: bool,
    /// the root index block is moved behind a hole of this many virtual zero bytes (files whose
    /// index lives beyond 4 GiB without holding 4 GiB in memory)
    #[serde(default)]
    pub sparse_hole: Option<u64>,
}

#[derive(Clone, Serialize, Deserialize, Debug, PartialEq)]
pub struct IterCase {
    pub spec: FileSpec,
    pub env: EnvPlan,
    pub queries: Vec<Query>,
    #[serde(default)]
    pub v1: bool,
    /// queries are run two at a time, on two clones of the reader, their `next` calls alternating
    /// (with `EnvPlan.shared_pos` the two clones share one file position, like two handles on a `&File`)
    #[serde(default)]
    pub interleave: bool,
}

#[derive(Clone, Serialize, Deserialize, Debug, PartialEq)]
pub struct MergeCase {
    pub sources: Vec<FileSpec>,
    /// how each source is attached: 0 add, 1 push, 2 extend (grouped with following 2s)
    pub attach: Vec<u8>,
    pub mf: MergeKind,
    /// 0 stream iterator, 1 write_into_stream_writer then read back
    pub out_mode: u8,
    pub out_knobs: Knobs,
    pub env: EnvPlan,
}

#[derive(Clone, Serialize, Deserialize, Debug, PartialEq)]
pub struct SortKnobs {
    /// raw threshold through the hook; None = shipped default path (dump_threshold(req) if Some in `threshold_req`)
    pub raw_threshold: Option<usize>,
    pub threshold_req: Option<usize>,
    pub init_cap: Option<usize>,
    pub allow_realloc: bool,
    pub max_nb_chunks: Option<usize>,
    pub unstable: bool,
    pub parallel: bool,
    pub chunk_codec: Option<u8>,
    pub chunk_level: Option<u32>,
    pub block_size: Option<usize>,
    pub interval: Option<usize>,
    pub levels: Option<u8>,
    /// 0 SimFs, 1 CursorVec, 2 TempFileChunk
    pub creator: u8,
}

#[derive(Clone, Serialize, Deserialize, Debug, PartialEq)]
pub struct SortCase {
    pub inserts: Entries,
    pub knobs: SortKnobs,
    /// alternative knob settings under which the same history must give the same output
    #[serde(default)]
    pub alt_knobs: Vec<SortKnobs>,
    pub mf: MergeKind,
    /// 0 stream iterator, 1 write_into_stream_writer + read back, 2 into_reader_cursors + Merger, 3 into_reader_cursors + model merge
    pub consume: u8,
    pub out_knobs: Knobs,
    pub env: EnvPlan,
}

#[derive(Clone, Serialize, Deserialize, Debug, PartialEq)]
pub struct OpenCase {
    pub bytes: B,
}

#[derive(Clone, Serialize, Deserialize, Debug, PartialEq)]
pub enum Case {
    File(FileCase),
    Cursor(CursorCase),
    Iter(IterCase),
    Merge(MergeCase),
    Sort(SortCase),
    Open(OpenCase),
}

#[derive(Clone, Serialize, Deserialize, Debug, PartialEq)]
pub struct Trace {
    pub property: String,
    pub master_seed: u64,
    pub run: u64,
    pub sub_seed: u64,
    pub case: Case,
    #[serde(default)]
    pub violation: Option<String>,
    #[serde(default)]
    pub oracle: Option<String>,
    #[serde(default)]
    pub minimised: bool,
}

#[derive(Clone, Debug, PartialEq)]
pub struct Violation {
    pub property: String,
    /// stable identifier of the oracle clause that failed (used for "same violation class")
    pub oracle: String,
    pub msg: String,
}

impl Violation {
    pub fn new(property: &str, oracle: &str, msg: String) -> Violation {
        Violation { property: property.to_string(), oracle: oracle.to_string(), msg }
    }
}
