//! Sorter properties: C07 output = sort-and-merge, C08 resource bounds, and the sorter part of C17.

use std::collections::BTreeMap;

use crate::case::*;
use crate::env::MergeKind;
use crate::exec::{Rec, Res};
use crate::gen::{self, Tier};
use crate::props_file::Verdict;
use crate::rng::{fnv1a, Rng};
use crate::run::{run_case, RunOpts, RunResult, Stats};

fn viol(p: &str, oracle: &str, msg: String) -> Verdict {
    Some((Violation::new(p, oracle, msg), None))
}

pub fn gen_sort_knobs(rng: &mut Rng, small_regime: bool) -> SortKnobs {
    let raw = if small_regime {
        *rng.pick(&[256usize, 512, 1024, 2048, 4096, 16384, 65536])
    } else {
        [64usize, 100, 256, 777, 1024, 4096, 16384, 65536][rng.usize_below(8)]
    };
    let allow_realloc = rng.chance(1, 2);
    let init_cap = if allow_realloc { Some(rng.log_uniform(16, raw as u64) as usize) } else { None };
    // the public setter is called first with a request a user may well make ("never spill" =
    // usize::MAX, 0, values around the 10 MiB floor and around powers of two); the hook then sets
    // the small effective budget. Derived from a side stream so the main stream is unchanged.
    let mut side = rng.clone();
    let threshold_req = if side.chance(1, 5) {
        Some(match side.below(6) {
            0 => usize::MAX,
            1 => usize::MAX - side.urange(0, 40),
            2 => side.urange(0, 17),
            3 => 10 * 1024 * 1024 + side.urange(0, 32) - 16,
            4 => (1usize << *side.pick(&[31u32, 32, 33, 62, 63])) + side.urange(0, 32) - 16,
            _ => isize::MAX as usize + side.urange(0, 32) - 16,
        })
    } else {
        None
    };
    SortKnobs {
        raw_threshold: Some(raw),
        threshold_req,
        init_cap,
        allow_realloc,
        max_nb_chunks: *rng.pick(&[None, Some(0), Some(1), Some(2), Some(3), Some(5), Some(25)]),
        unstable: rng.chance(1, 3),
        parallel: rng.chance(1, 4),
        chunk_codec: *rng.pick(&[None, None, Some(0), Some(1), Some(2), Some(3), Some(4), Some(5)]),
        chunk_level: *rng.pick(&[None, None, Some(0), Some(1), Some(3)]),
        block_size: *rng.pick(&[None, Some(1024), Some(1024), Some(4096)]),
        interval: *rng.pick(&[None, Some(1), Some(3), Some(16)]),
        levels: *rng.pick(&[None, Some(0), Some(1), Some(2), Some(3)]),
        creator: [0u8, 1, 2][rng.weighted(&[94, 4, 2])],
    }
}

pub fn gen_inserts(rng: &mut Rng, maxn: usize, max_entry: Option<usize>, threshold: usize) -> Vec<(B, B)> {
    let n = rng.log_uniform(0, maxn as u64) as usize;
    if max_entry.is_none() && rng.chance(1, 12) {
        // degenerate histories: a handful of inserts over {"", one-byte keys} with empty or tiny values
        let n = rng.urange(1, 6);
        let keys: [&[u8]; 4] = [b"", b"", b"\x00", b"\xff"];
        let mut out = Vec::new();
        let only_empty = rng.chance(1, 2);
        for _ in 0..n {
            let k = if only_empty { &b""[..] } else { *rng.pick(&keys) };
            let v: Vec<u8> = if rng.chance(2, 3) { Vec::new() } else { vec![0x00, 0x06, 0, 0, 0, out.len() as u8] };
            out.push((B(k.to_vec()), B(v)));
        }
        return out;
    }
    let pool_n = if rng.chance(1, 3) { n.max(1) * 4 } else { rng.urange(1, 40) };
    let class = [gen::KeyClass::Alpha, gen::KeyClass::Counter, gen::KeyClass::Random][rng.usize_below(3)];
    let pool = gen::gen_keys(rng, pool_n, class, 1024);
    let mut out = Vec::with_capacity(n);
    let size_style = rng.below(4);
    let mut volume = 0usize;
    let volume_cap = if maxn > 1000 { 6 << 20 } else { 3 << 19 };
    for i in 0..n {
        let mut key = if pool.is_empty() { Vec::new() } else { pool[rng.usize_below(pool.len())].clone() };
        let mut pad = match size_style {
            0 => rng.urange(0, 10),
            1 => rng.urange(0, 60),
            2 => {
                if rng.chance(1, 12) {
                    rng.urange(threshold / 2, threshold * 2 + 40) // around / larger than the whole buffer
                } else {
                    rng.urange(0, 24)
                }
            }
            _ => {
                if rng.chance(1, 6) {
                    0
                } else {
                    rng.urange(0, threshold / 3 + 8)
                }
            }
        };
        if let Some(me) = max_entry {
            // C08 regime: key + value <= max_entry
            if key.len() > me / 2 {
                key.truncate(me / 2);
            }
            let room = me.saturating_sub(key.len());
            if 6 + pad > room {
                pad = room.saturating_sub(6);
            }
            if room < 6 {
                // tiny budget: raw value without a record header
                out.push((B(key), B(vec![i as u8; room.min(2)])));
                continue;
            }
        }
        pad = pad.min(60_000);
        // bound the total volume of one history (every knob setting re-runs it and keeps a transcript)
        volume += key.len() + pad + 6;
        if volume > volume_cap {
            pad = pad.min(16);
        }
        out.push((B(key), B(gen::record(i as u32, pad))));
    }
    out
}

pub fn gen_sort_case(rng: &mut Rng, tier: Tier) -> SortCase {
    let knobs = gen_sort_knobs(rng, false);
    let maxn = if tier == Tier::Quick { 400 } else { 5000 };
    let inserts = gen_inserts(rng, maxn, None, knobs.raw_threshold.unwrap_or(1024));
    let mut alt = Vec::new();
    for _ in 0..2 {
        let mut a = gen_sort_knobs(rng, false);
        a.unstable = knobs.unstable;
        a.creator = 0;
        alt.push(a);
    }
    let mut out_knobs = gen::gen_knobs(rng, false);
    out_knobs.ctor = 0;
    SortCase {
        inserts: Entries::Literal(inserts),
        knobs,
        alt_knobs: alt,
        mf: gen::gen_merge_kind(rng),
        consume: rng.below(4) as u8,
        out_knobs,
        env: gen::gen_env(rng, true),
    }
}

pub fn gen_c07(rng: &mut Rng, tier: Tier) -> Case {
    let mut c = gen_sort_case(rng, tier);
    if rng.chance(1, 25) {
        // zero-byte entries at a full buffer: fillers leave fewer than 16 free bytes in a fixed-size
        // buffer, then only ("", "") follow, so that the spill is triggered by an entry that occupies
        // no key/value bytes at all and only such entries are pending when the sorter is consumed
        let thr = *rng.pick(&[64usize, 96, 128, 256, 1024]);
        c.knobs.raw_threshold = Some(thr);
        c.knobs.allow_realloc = false;
        c.knobs.init_cap = None;
        c.knobs.creator = 0;
        let cap = (thr + 15) / 16 * 16;
        let mut ins = Vec::new();
        let mut free = cap;
        let mut id = 0u32;
        let rounds = rng.urange(1, 3);
        for _ in 0..rounds {
            while free >= 16 + 6 + 16 {
                let pad = rng.urange(0, (free - 16 - 6 - 16).min(20));
                let key = vec![1u8 + (id % 3) as u8; rng.urange(1, 3)];
                free -= 16 + key.len() + 6 + pad;
                ins.push((B(key), B(gen::record(id, pad))));
                id += 1;
            }
            // one entry that leaves 0..=15 free bytes
            if free >= 16 + 6 + 1 {
                let want_free = rng.urange(0, 15);
                let room = free - 16 - 1; // key of one byte
                let vlen = room.saturating_sub(want_free).max(6);
                if vlen >= 6 && 16 + 1 + vlen <= free {
                    ins.push((B(vec![9u8]), B(gen::record(id, vlen - 6))));
                    id += 1;
                }
            }
            for _ in 0..rng.urange(1, 4) {
                ins.push((B(Vec::new()), B(Vec::new())));
            }
            free = cap - 16; // after the spill only the ("","") that triggered it is buffered
        }
        c.inserts = Entries::Literal(ins);
        c.alt_knobs.clear();
    } else if rng.chance(1, 24) {
        // entries that occupy no bytes at all — ("", "") — next to other values of the empty key, in
        // a buffer holding enough entries for the sort to leave its small-slice path: only the
        // position of an empty value among its siblings tells a stable sort from an unstable one
        let mut ins: Vec<(B, B)> = Vec::new();
        let mut id = 0u32;
        let fillers = rng.urange(24, 160);
        let runs = rng.urange(1, 4);
        let at: Vec<usize> = (0..runs).map(|_| rng.urange(0, fillers)).collect();
        let other: Vec<u8> = if rng.chance(1, 2) { Vec::new() } else { vec![*rng.pick(&gen::ALPHA)] };
        for i in 0..=fillers {
            if at.contains(&i) {
                let k = if rng.chance(2, 3) { Vec::new() } else { other.clone() };
                let n = rng.urange(2, 6);
                let full_at = rng.urange(0, n - 1);
                for j in 0..n {
                    let v = if j == full_at || rng.chance(1, 5) { gen::record(id, rng.urange(0, 3)) } else { Vec::new() };
                    id += 1;
                    ins.push((B(k.clone()), B(v)));
                }
            }
            let key = vec![*rng.pick(&gen::ALPHA); rng.urange(1, 2)];
            ins.push((B(key), B(gen::record(id, rng.urange(0, 8)))));
            id += 1;
        }
        c.inserts = Entries::Literal(ins);
        c.knobs.unstable = false;
        for a in c.alt_knobs.iter_mut() {
            a.unstable = false;
        }
        c.knobs.raw_threshold = Some(*rng.pick(&[4096usize, 16384, 65536]));
        c.knobs.init_cap = c.knobs.init_cap.map(|x| x.min(4096));
        c.mf = *rng.pick(&[MergeKind::Join, MergeKind::Join, MergeKind::First, MergeKind::Last]);
    } else if rng.chance(1, 20) {
        // many values of one key inside one in-memory run, their number on and around powers of two
        // and multiples of 64 (where a batching, chunking or recursion scheme has its seams)
        let mut ins: Vec<(B, B)> = Vec::new();
        let mut id = 0u32;
        let hot: Vec<u8> = vec![*rng.pick(&gen::ALPHA); rng.urange(0, 3)];
        let count = match rng.below(3) {
            0 => *rng.pick(&[64usize, 128, 256, 384, 512, 768, 1024]),
            1 => (*rng.pick(&[64usize, 128, 256, 512]) as i64 + rng.range(0, 2) as i64 - 1) as usize,
            _ => 64 * rng.urange(1, 12),
        };
        let others = rng.urange(0, 30);
        let mut left_other = others;
        for j in 0..count {
            ins.push((B(hot.clone()), B(gen::record(id, rng.urange(0, 2)))));
            id += 1;
            // a few other keys in between
            if left_other > 0 && rng.chance(others as u64, count as u64 + 1) {
                let k = vec![*rng.pick(&gen::ALPHA); rng.urange(1, 4)];
                if k != hot {
                    ins.push((B(k), B(gen::record(id, rng.urange(0, 6)))));
                    id += 1;
                    left_other -= 1;
                }
            }
            let _ = j;
        }
        c.inserts = Entries::Literal(ins);
        // large enough for a single run in the first setting; the alternative settings may spill
        c.knobs.raw_threshold = Some(1 << 20);
        c.knobs.init_cap = c.knobs.init_cap.map(|x| x.min(4096));
        c.mf = *rng.pick(&[MergeKind::Join, MergeKind::Concat, MergeKind::First, MergeKind::Last]);
    } else if rng.chance(1, 20) {
        // many spills under a large chunk limit: a buffer that holds two or three entries, a limit of
        // 33..129 chunks that is reached once or several times, a handful of keys present in every
        // chunk, and a merge function that shows the order of the values
        let max = *rng.pick(&[33usize, 64, 65, 66, 70, 100, 128, 129]);
        let thr = *rng.pick(&[64usize, 80, 96, 128]);
        let pool: Vec<Vec<u8>> = (0..rng.urange(1, 4)).map(|i| vec![b'a' + i as u8; rng.urange(1, 3)]).collect();
        let n = rng.urange(2 * max + 10, 6 * max);
        let mut ins = Vec::with_capacity(n);
        for i in 0..n {
            let k = pool[rng.usize_below(pool.len())].clone();
            ins.push((B(k), B(gen::record(i as u32, rng.urange(0, 4)))));
        }
        c.inserts = Entries::Literal(ins);
        c.knobs.raw_threshold = Some(thr);
        c.knobs.allow_realloc = false;
        c.knobs.init_cap = None;
        c.knobs.max_nb_chunks = Some(max);
        c.knobs.creator = 0;
        c.knobs.chunk_codec = *rng.pick(&[None, Some(0), Some(5)]);
        c.knobs.unstable = false;
        c.alt_knobs.truncate(1);
        for a in c.alt_knobs.iter_mut() {
            a.unstable = false;
        }
        c.mf = *rng.pick(&[MergeKind::Concat, MergeKind::Join]);
    }
    Case::Sort(c)
}

/// Collects the sorter's output from a transcript. For consume == 3 returns the per-chunk lists.
fn outputs(recs: &[Rec], consume: u8) -> (Vec<(Vec<u8>, Vec<u8>)>, Vec<Vec<(Vec<u8>, Vec<u8>)>>) {
    let mut out = Vec::new();
    let mut chunks: Vec<Vec<(Vec<u8>, Vec<u8>)>> = Vec::new();
    let mut started = false;
    for r in recs {
        match r.op.as_str() {
            "Sorter::into_stream_merger_iter" | "Sorter::write_into_stream_writer" | "Sorter::into_reader_cursors" => started = true,
            "chunk.begin" => chunks.push(Vec::new()),
            "MergerIter::next" | "move_on_next" | "chunk.move_on_next" if started => {
                if let Res::Entry(k, v) = &r.res {
                    if consume == 3 {
                        if let Some(c) = chunks.last_mut() {
                            c.push((k.clone(), v.clone()));
                        }
                    } else {
                        out.push((k.clone(), v.clone()));
                    }
                }
            }
            _ => {}
        }
    }
    (out, chunks)
}

fn model_of(inserts: &[(Vec<u8>, Vec<u8>)]) -> BTreeMap<Vec<u8>, Vec<Vec<u8>>> {
    let mut m: BTreeMap<Vec<u8>, Vec<Vec<u8>>> = BTreeMap::new();
    for (k, v) in inserts {
        m.entry(k.clone()).or_default().push(v.clone());
    }
    m
}

/// Judges a sorter output against the model. Returns Some((oracle, msg)) on mismatch.
fn judge_output(
    out: &[(Vec<u8>, Vec<u8>)],
    model: &BTreeMap<Vec<u8>, Vec<Vec<u8>>>,
    mf: MergeKind,
    unstable: bool,
) -> Option<(String, String)> {
    for w in out.windows(2) {
        if w[0].0 >= w[1].0 {
            return Some(("keys-not-ascending".into(), format!("output keys not strictly ascending at {:02x?}", w[1].0)));
        }
    }
    if out.len() != model.len() {
        return Some(("key-set".into(), format!("output has {} keys, {} distinct keys were inserted", out.len(), model.len())));
    }
    for ((k, v), (mk, mvals)) in out.iter().zip(model.iter()) {
        if k != mk {
            return Some(("key-set".into(), format!("output key {:02x?} where the model has {:02x?}", k, mk)));
        }
        match mf {
            MergeKind::Concat => {
                let want = mvals.concat();
                if !unstable {
                    if *v != want {
                        return Some((
                            "value-order".into(),
                            format!(
                                "key {:02x?}: value is not the concatenation of its {} inserted values in insertion order (got ids {:?})",
                                k,
                                mvals.len(),
                                gen::parse_records(v).map(|x| x.into_iter().take(12).collect::<Vec<_>>())
                            ),
                        ));
                    }
                } else {
                    // same multiset of records
                    let mut got: Vec<Vec<u8>> = match split_records(v) {
                        Some(g) => g,
                        None => {
                            if *v == want {
                                continue;
                            }
                            return Some(("value-malformed".into(), format!("key {:02x?}: value is not a sequence of inserted records", k)));
                        }
                    };
                    // empty values contribute nothing to a concatenation
                    let mut w: Vec<Vec<u8>> = mvals.iter().filter(|v| !v.is_empty()).cloned().collect();
                    got.sort();
                    w.sort();
                    if got != w {
                        return Some(("value-multiset".into(), format!("key {:02x?}: merged records are not the multiset of inserted values", k)));
                    }
                }
            }
            // not associative: never generated for a sorter
            MergeKind::BorrowedPrefix => {}
            MergeKind::Join => {
                let want = mvals.join(&0x1Fu8);
                if !unstable {
                    if *v != want {
                        return Some((
                            "value-order".into(),
                            format!("key {:02x?}: value is not its {} inserted values joined in insertion order ({} bytes, expected {})", k, mvals.len(), v.len(), want.len()),
                        ));
                    }
                } else {
                    // any order of the same values: same length and the same bytes
                    let (mut a, mut b) = (v.clone(), want.clone());
                    a.sort_unstable();
                    b.sort_unstable();
                    if a != b {
                        return Some(("value-multiset".into(), format!("key {:02x?}: joined value does not hold the bytes of the inserted values", k)));
                    }
                }
            }
            MergeKind::First | MergeKind::Last => {
                let want = if mf == MergeKind::First { &mvals[0] } else { &mvals[mvals.len() - 1] };
                if !unstable {
                    if v != want {
                        return Some(("value-pick".into(), format!("key {:02x?}: expected the {:?} inserted value", k, mf)));
                    }
                } else if !mvals.contains(v) {
                    return Some(("value-pick".into(), format!("key {:02x?}: value is none of the inserted ones", k)));
                }
            }
        }
    }
    None
}

fn split_records(mut v: &[u8]) -> Option<Vec<Vec<u8>>> {
    let mut out = Vec::new();
    while !v.is_empty() {
        if v.len() < 6 {
            return None;
        }
        let len = u16::from_be_bytes([v[0], v[1]]) as usize;
        if len < 6 || len > v.len() {
            return None;
        }
        out.push(v[..len].to_vec());
        v = &v[len..];
    }
    Some(out)
}

fn merge_chunks_by_model(chunks: &[Vec<(Vec<u8>, Vec<u8>)>], mf: MergeKind) -> Vec<(Vec<u8>, Vec<u8>)> {
    let u = crate::model::merge_union(chunks);
    u.into_iter().map(|(k, vs)| (k, crate::model::merge_model(mf, &vs))).collect()
}

fn first_bad(recs: &[Rec]) -> Option<(usize, &Rec)> {
    recs.iter().enumerate().find(|(_, r)| r.res.is_err() || r.res.is_panic())
}

pub fn absorb_sort_reach(st: &mut Stats, r: &RunResult, knobs: &SortKnobs) {
    let e = r.env.0.borrow();
    let spills = e.creates;
    if let Some(o) = &r.sort_obs {
        st.c.add("fired.realloc", o.reallocs);
        st.c.add("probe.exact_fit", o.exact_fit);
        st.c.add("probe.entry_larger_than_buffer", o.entry_gt_buffer);
        let tuple = (spills.min(64), o.reallocs.min(64), e.max_live_chunks, knobs.max_nb_chunks.unwrap_or(25).min(30) as u64);
        st.states.insert(fnv1a(format!("{:?}", tuple).as_bytes()));
        if o.reallocs > 0 && spills > 1 {
            st.c.inc("probe.realloc_then_spill");
        }
    }
    st.c.add("fired.chunk_create", spills);
    if knobs.max_nb_chunks.map(|m| m <= 1).unwrap_or(false) && spills >= 3 {
        st.c.inc("probe.merge_chunks_at_max<=1");
    }
    if spills >= 2 {
        st.c.inc("runs_with_spill_before_final_flush");
    }
    st.c.max("max.live_chunks", e.max_live_chunks.max(0) as u64);
    if knobs.parallel {
        st.c.inc("runs.parallel_sort");
    }
    st.c.inc(match knobs.creator {
        1 => "creator.CursorVec(real)",
        2 => "creator.TempFileChunk(real)",
        _ => "creator.SimFs",
    });
}

pub fn check_c07(case: &Case, st: &mut Stats) -> Verdict {
    let Case::Sort(c) = case else { return viol("C07", "harness", "wrong case kind".into()) };
    let inserts = c.inserts.materialize();
    let model = model_of(&inserts);
    let mut all_knobs = vec![c.knobs.clone()];
    all_knobs.extend(c.alt_knobs.iter().cloned());
    let mut first_out: Option<Vec<(Vec<u8>, Vec<u8>)>> = None;
    for (ki, knobs) in all_knobs.iter().enumerate() {
        let mut opts = RunOpts::default();
        opts.sort_knobs_override = Some(knobs.clone());
        let r = run_case(case, &c.env, &opts);
        st.absorb_env(&r);
        absorb_sort_reach(st, &r, knobs);
        if let Some((i, rec)) = first_bad(&r.recs) {
            let o = if rec.res.is_panic() { "panic" } else { "err" };
            return viol("C07", &format!("{}.{}", o, rec.op), format!("knob set #{}: call #{} {} -> {}", ki, i, rec.op, rec.res.short()));
        }
        let (mut out, chunks) = outputs(&r.recs, c.consume);
        if c.consume == 3 {
            // every chunk must itself be strictly ascending, then merge by the model in age order
            for (ci, ch) in chunks.iter().enumerate() {
                for w in ch.windows(2) {
                    if w[0].0 >= w[1].0 {
                        return viol("C07", "chunk-not-ascending", format!("knob set #{}: chunk #{} keys not strictly ascending", ki, ci));
                    }
                }
            }
            out = merge_chunks_by_model(&chunks, c.mf);
        }
        if let Some((oracle, msg)) = judge_output(&out, &model, c.mf, knobs.unstable) {
            return viol("C07", &oracle, format!("knob set #{} (consume {}): {}", ki, c.consume, msg));
        }
        if !knobs.unstable {
            match &first_out {
                None => first_out = Some(out),
                Some(f) => {
                    if *f != out {
                        return viol("C07", "depends-on-spill-schedule", format!("knob set #{} gives a different output than knob set #0", ki));
                    }
                }
            }
        }
    }
    let h = fnv1a(format!("{:?}{:?}", c.knobs, inserts.len()).as_bytes()) ^ first_out.as_ref().map(|o| o.len() as u64).unwrap_or(0);
    st.distinct.insert(h);
    if inserts.len() >= 2 {
        st.nontrivial.insert(h);
    }
    st.c.inc(&format!("consume.{}", c.consume));
    if model.values().any(|v| v.len() >= 2) {
        st.c.inc("runs_with_duplicate_keys");
    }
    None
}

// ------------------------------------------------------------------------------------- C08

pub fn gen_c08(rng: &mut Rng, tier: Tier) -> Case {
    let real_scale = rng.chance(1, if tier == Tier::Quick { 4000 } else { 1500 });
    gen_c08_with(rng, tier, real_scale)
}

pub fn gen_c08_with(rng: &mut Rng, tier: Tier, real_scale: bool) -> Case {
    if real_scale {
        // budgets: below the shipped minimum, at it, and values that are not multiples of any power of two
        let req = *rng.pick(&[Some(0usize), Some(1024), Some(10 * 1024 * 1024), Some(16 * 1024 * 1024), Some(15_000_000), Some(12_345_678), Some(10 * 1024 * 1024 + 1), None]);
        let allow_realloc = rng.chance(1, 2);
        let knobs = SortKnobs {
            raw_threshold: None,
            threshold_req: Some(req.unwrap_or(0)),
            init_cap: None,
            allow_realloc,
            max_nb_chunks: *rng.pick(&[Some(2), Some(3), Some(25)]),
            unstable: rng.chance(1, 2),
            parallel: false,
            chunk_codec: None,
            chunk_level: None,
            block_size: None,
            interval: None,
            levels: None,
            creator: 0,
        };
        let total = rng.range(60, 110) * 1024 * 1024u64;
        let vlen = *rng.pick(&[100u32, 400, 2000]);
        let n = total / (vlen as u64 + 8);
        return Case::Sort(SortCase {
            inserts: Entries::Counter { n, width: 8, start: 1, stride: 0x9E37_79B9_7F4A_7C15 % 1_000_003, vlen },
            knobs,
            alt_knobs: vec![],
            mf: MergeKind::First,
            consume: 0,
            out_knobs: Knobs::default_knobs(),
            env: crate::env::EnvPlan::whole(),
        });
    }
    let mut knobs = gen_sort_knobs(rng, true);
    knobs.creator = 0;
    knobs.parallel = false;
    let b = knobs.raw_threshold.unwrap();
    if let Some(c) = knobs.init_cap {
        knobs.init_cap = Some(c.min(b));
    }
    // side stream: one history in twenty has a large chunk limit (64..129) and enough volume under a
    // small budget to reach it more than once
    let mut side = rng.clone();
    let many = side.chance(1, 20);
    if many {
        knobs.raw_threshold = Some(*side.pick(&[256usize, 512, 1024]));
        knobs.max_nb_chunks = Some(*side.pick(&[64usize, 65, 66, 100, 128, 129]));
        knobs.init_cap = knobs.init_cap.map(|c| c.min(256));
    }
    let b = knobs.raw_threshold.unwrap();
    let max_entry = b / 4;
    // total volume 5–200 × budget, bounded for speed
    let mut mult = rng.range(5, if tier == Tier::Quick { 60 } else { 200 });
    if many {
        let m = knobs.max_nb_chunks.unwrap() as u64;
        mult = side.range(2 * m + 10, 5 * m);
    }
    let vol_cap = if tier == Tier::Quick { 600_000u64 } else { 4_000_000 };
    let target = (b as u64 * mult).min(vol_cap);
    let mut inserts = Vec::new();
    let mut vol = 0u64;
    let mut i = 0u32;
    let style = rng.below(3);
    if rng.chance(1, 10) {
        // a buffer filled with nothing but zero-byte entries, then ordinary ones
        let fill = (b as usize).max(16) * 2 / 16 + rng.urange(0, 40);
        for _ in 0..fill.min(20_000) {
            inserts.push((B(Vec::new()), B(Vec::new())));
        }
    }
    let pool_n = rng.urange(1, 200);
    let pool = gen::gen_keys(rng, pool_n, gen::KeyClass::Counter, 1024);
    while vol < target && inserts.len() < 60_000 {
        let key = pool[rng.usize_below(pool.len())].clone();
        let room = max_entry.saturating_sub(key.len());
        let want = match style {
            0 => rng.urange(0, 16),
            1 => rng.urange(0, room),
            _ => {
                if rng.chance(1, 4) {
                    room
                } else {
                    rng.urange(0, 32)
                }
            }
        };
        let vlen = want.min(room);
        let val = if vlen >= 6 { gen::record(i, vlen - 6) } else { vec![i as u8; vlen] };
        vol += (key.len() + val.len()) as u64;
        inserts.push((B(key), B(val)));
        i += 1;
    }
    let fault_k = if rng.chance(1, 5) { Some(rng.log_uniform(1, 4000)) } else { None };
    let mut c08 = SortCase {
        inserts: Entries::Literal(inserts),
        knobs,
        alt_knobs: vec![],
        mf: gen::gen_merge_kind(rng),
        consume: rng.below(3) as u8,
        out_knobs: Knobs::default_knobs(),
        // the monitors sit at the creator seam; byte-wise chunk I/O adds cost, not reach
        env: if rng.chance(2, 3) { crate::env::EnvPlan { buffered: rng.chance(1, 2), ..crate::env::EnvPlan::whole() } } else { gen::gen_env(rng, true) },
    };
    if let Some(k) = fault_k {
        // err % 4 == 0: the creator (or a chunk) fails with a plain io::Error
        c08.env.faults = vec![crate::env::FaultSpec { k, err: 4 * rng.below(9) as u8, sticky: false, merge_nth: 0, panic: false }];
    }
    Case::Sort(c08)
}

pub fn check_c08(case: &Case, st: &mut Stats) -> Verdict {
    let Case::Sort(c) = case else { return viol("C08", "harness", "wrong case kind".into()) };
    let knobs = &c.knobs;
    let budget: u64 = match (knobs.raw_threshold, knobs.threshold_req) {
        (Some(raw), _) => raw as u64,
        (None, Some(req)) => (req as u64).max(10 * 1024 * 1024), // specification constant: 10 MiB minimum
        (None, None) => 1 << 30,
    };
    let bound = if knobs.allow_realloc { 2 * budget } else { budget };
    let max_chunks = knobs.max_nb_chunks.unwrap_or(25).max(1) as i64;
    let live_before = crate::alloc::thread_live();
    let _ = crate::alloc::thread_peak_reset();
    let mut opts = RunOpts::default();
    // hook-free real-scale runs measure the heap: their transcript must not retain the entries
    opts.lean = c.inserts.len() > 50_000 || knobs.raw_threshold.is_none();
    // transient-fault family: a failing component (here: the chunk creator) makes one insert
    // return Err; the caller keeps inserting and the bounds must keep holding
    opts.continue_after_err = !c.env.faults.is_empty();
    let r = run_case(case, &c.env, &opts);
    let heap_peak = crate::alloc::thread_peak_reset();
    st.absorb_env(&r);
    absorb_sort_reach(st, &r, knobs);
    let fired = r.env.fired();
    let faulty = !fired.is_empty();
    for (i, rec) in r.recs.iter().enumerate() {
        let injected = rec.res.is_err() && fired.iter().any(|f| rec.clock_before < f.k && f.k <= rec.clock_after);
        if rec.res.is_panic() || (rec.res.is_err() && !injected) {
            let o = if rec.res.is_panic() { "panic" } else { "err" };
            return viol("C08", &format!("{}.{}", o, rec.op), format!("call #{} {} -> {}", i, rec.op, rec.res.short()));
        }
    }
    if faulty {
        st.c.inc("fired.transient_component_fault_then_inserts_continue");
    }
    let e = r.env.0.borrow();
    let total_volume: u64 = match &c.inserts {
        Entries::Literal(v) => v.iter().map(|(k, v)| (k.0.len() + v.0.len()) as u64).sum(),
        Entries::Counter { n, width, vlen, .. } | Entries::Noise { n, width, vlen, .. } => n * (*width as u64 + *vlen as u64),
    };
    if e.max_window_volume > bound {
        return viol(
            "C08",
            "unspilled-volume",
            format!(
                "{} bytes were inserted without a spill; bound is {} ({}x budget {}, realloc {})",
                e.max_window_volume,
                bound,
                if knobs.allow_realloc { 2 } else { 1 },
                budget,
                knobs.allow_realloc
            ),
        );
    }
    // After a component failure the statement promises nothing; the family that keeps inserting
    // after a rejected insert judges the chunk bound with one extra chunk per failure, because a
    // chunk merge that fails (its output cannot be created) legitimately leaves its inputs in place
    // until the next merge - measured on the unchanged tree: max_nb_chunks = 1 peaks at 4 once.
    let slack = fired.len() as i64;
    if e.max_live_chunks > max_chunks + 2 + slack {
        return viol(
            "C08",
            "live-chunks",
            format!("{} chunks were alive at once; maximum configured {} (+2{})", e.max_live_chunks, max_chunks, if slack > 0 { format!(", +{} after {} failed component call(s)", slack, slack) } else { String::new() }),
        );
    }
    let accounted: u64 = e.create_windows.iter().sum::<u64>() + e.window_volume;
    if faulty {
        // after a failed call the rejected entry is not part of the accounting; only the bounds above are judged
        let h = fnv1a(format!("{:?}{}f", knobs, total_volume).as_bytes());
        st.distinct.insert(h);
        st.nontrivial.insert(h);
        return None;
    }
    if accounted != total_volume {
        return viol("C08", "harness-accounting", format!("volume accounting mismatch {} vs {}", accounted, total_volume));
    }
    if total_volume > 0 && e.window_volume != 0 && e.creates == 0 {
        return viol("C08", "no-creator-call", "data was inserted and consumed but the chunk creator was never called".into());
    }
    if total_volume > bound && e.chunk_bytes_written == 0 {
        return viol("C08", "spill-bypasses-creator", "more than the bound was inserted yet nothing was written to created chunks".into());
    }
    if knobs.raw_threshold.is_none() {
        st.c.inc("runs.real_scale_no_hook");
        st.c.max("max.real_scale_window_permille_of_bound", e.max_window_volume * 1000 / bound);
        if crate::alloc::enabled() {
            // heap high-water mark excluding simulated storage: peak - bytes held by chunks
            let storage = e.chunk_bytes_written;
            let net = heap_peak.saturating_sub(live_before);
            st.c.max("max.real_scale_heap_permille_of_2x_budget", net * 1000 / (2 * budget));
            // merging k chunks keeps one decoded block per chunk plus the output block in memory,
            // and a block holds at least one entry: that working set is allowed on top
            let max_entry: u64 = match &c.inserts {
                Entries::Literal(v) => v.iter().map(|(k, v)| (k.0.len() + v.0.len()) as u64).max().unwrap_or(0),
                Entries::Counter { width, vlen, .. } | Entries::Noise { width, vlen, .. } => *width as u64 + *vlen as u64,
            };
            let merge_set = (max_chunks as u64 + 3) * 2 * max_entry.max(8192);
            if net > 2 * budget + (8 << 20) + merge_set {
                return viol(
                    "C08",
                    "heap-peak",
                    format!(
                        "heap high-water mark {} bytes above the start of the run (simulated storage of {} bytes excluded) exceeds 2 x budget {} + 8 MiB + a merge working set of {}",
                        net, storage, budget, merge_set
                    ),
                );
            }
        }
    } else {
        st.c.max("max.window_permille_of_bound", e.max_window_volume * 1000 / bound.max(1));
    }
    st.c.max("max.volume_over_budget_x", total_volume / budget.max(1));
    let h = fnv1a(format!("{:?}{}", knobs, total_volume).as_bytes());
    st.distinct.insert(h);
    if e.creates >= 2 {
        st.nontrivial.insert(h);
    }
    None
}
