//! The only source of choice in the simulator: splitmix64 for seed derivation and a
//! xoshiro256** stream per run. Implemented here so no crate upgrade can change streams.

pub fn splitmix64(state: &mut u64) -> u64 {
    *state = state.wrapping_add(0x9E37_79B9_7F4A_7C15);
    let mut z = *state;
    z = (z ^ (z >> 30)).wrapping_mul(0xBF58_476D_1CE4_E5B9);
    z = (z ^ (z >> 27)).wrapping_mul(0x94D0_49BB_1331_11EB);
    z ^ (z >> 31)
}

pub fn mix(a: u64, b: u64) -> u64 {
    let mut s = a ^ b.wrapping_mul(0xD6E8_FEB8_6659_FD93);
    splitmix64(&mut s)
}

pub fn fnv1a(bytes: &[u8]) -> u64 {
    let mut h: u64 = 0xcbf2_9ce4_8422_2325;
    for b in bytes {
        h = (h ^ *b as u64).wrapping_mul(0x0000_0100_0000_01b3);
    }
    h
}

pub fn hash_str(s: &str) -> u64 {
    fnv1a(s.as_bytes())
}

#[derive(Clone, Debug)]
pub struct Rng {
    s: [u64; 4],
}

impl Rng {
    pub fn new(seed: u64) -> Rng {
        let mut sm = seed;
        let s = [splitmix64(&mut sm), splitmix64(&mut sm), splitmix64(&mut sm), splitmix64(&mut sm)];
        Rng { s }
    }

    pub fn next_u64(&mut self) -> u64 {
        let result = self.s[1].wrapping_mul(5).rotate_left(7).wrapping_mul(9);
        let t = self.s[1] << 17;
        self.s[2] ^= self.s[0];
        self.s[3] ^= self.s[1];
        self.s[1] ^= self.s[2];
        self.s[0] ^= self.s[3];
        self.s[2] ^= t;
        self.s[3] = self.s[3].rotate_left(45);
        result
    }

    /// Uniform in 0..n (n > 0).
    pub fn below(&mut self, n: u64) -> u64 {
        debug_assert!(n > 0);
        // multiply-shift; bias is irrelevant here and the mapping is deterministic
        ((self.next_u64() as u128 * n as u128) >> 64) as u64
    }

    pub fn usize_below(&mut self, n: usize) -> usize {
        self.below(n as u64) as usize
    }

    /// Uniform in lo..=hi.
    pub fn range(&mut self, lo: u64, hi: u64) -> u64 {
        debug_assert!(lo <= hi);
        lo + self.below(hi - lo + 1)
    }

    pub fn urange(&mut self, lo: usize, hi: usize) -> usize {
        self.range(lo as u64, hi as u64) as usize
    }

    /// True with probability num/den.
    pub fn chance(&mut self, num: u64, den: u64) -> bool {
        self.below(den) < num
    }

    pub fn pick<'a, T>(&mut self, xs: &'a [T]) -> &'a T {
        &xs[self.usize_below(xs.len())]
    }

    /// Pick an index according to integer weights.
    pub fn weighted(&mut self, weights: &[u32]) -> usize {
        let total: u64 = weights.iter().map(|w| *w as u64).sum();
        let mut x = self.below(total);
        for (i, w) in weights.iter().enumerate() {
            if x < *w as u64 {
                return i;
            }
            x -= *w as u64;
        }
        weights.len() - 1
    }

    /// Log-uniform integer in lo..=hi (lo may be 0).
    pub fn log_uniform(&mut self, lo: u64, hi: u64) -> u64 {
        if hi <= lo {
            return lo;
        }
        let span = hi - lo;
        let bits = 64 - span.leading_zeros() as u64; // 1..=64
        let b = self.range(0, bits);
        let cap = if b >= 64 { u64::MAX } else { (1u64 << b).saturating_sub(1) };
        let v = if cap == 0 { 0 } else { self.range(0, cap) };
        lo + v.min(span)
    }

    pub fn bytes(&mut self, len: usize) -> Vec<u8> {
        let mut out = Vec::with_capacity(len);
        while out.len() < len {
            let x = self.next_u64().to_le_bytes();
            let take = (len - out.len()).min(8);
            out.extend_from_slice(&x[..take]);
        }
        out
    }

    pub fn fork(&mut self) -> Rng {
        Rng::new(self.next_u64())
    }
}
