//! Reference models: a sorted vector, with every answer computed by definition. They produce
//! the expected transcript of an executor run; `None` in an expectation = executed but not judged.

use std::collections::BTreeMap;

use crate::case::*;
use crate::env::MergeKind;
use crate::exec::{Rec, Res};

pub type Exp = (String, Option<Res>);

pub fn ceiling(keys: &[(Vec<u8>, Vec<u8>)], q: &[u8]) -> Option<usize> {
    let i = keys.partition_point(|(k, _)| k.as_slice() < q);
    if i < keys.len() {
        Some(i)
    } else {
        None
    }
}

pub fn floor(keys: &[(Vec<u8>, Vec<u8>)], q: &[u8]) -> Option<usize> {
    let i = keys.partition_point(|(k, _)| k.as_slice() <= q);
    i.checked_sub(1)
}

pub fn exact(keys: &[(Vec<u8>, Vec<u8>)], q: &[u8]) -> Option<usize> {
    let i = keys.partition_point(|(k, _)| k.as_slice() < q);
    if i < keys.len() && keys[i].0.as_slice() == q {
        Some(i)
    } else {
        None
    }
}

fn ent(entries: &[(Vec<u8>, Vec<u8>)], i: Option<usize>) -> Res {
    match i {
        Some(i) => Res::Entry(entries[i].0.clone(), entries[i].1.clone()),
        None => Res::None,
    }
}

fn e(op: &str, r: Res) -> Exp {
    (op.to_string(), Some(r))
}

pub fn expect_open(n: usize, codec: u8, v1: bool) -> Vec<Exp> {
    vec![e("Reader::new", Res::Meta { len: n as u64, codec, version: if v1 { 0 } else { 1 } }), e("Reader::into_cursor", Res::Unit)]
}

pub fn expect_file(case: &FileCase, entries: &[(Vec<u8>, Vec<u8>)], sink_bytes: Option<&Res>) -> Vec<Exp> {
    let mut x = Vec::new();
    for _ in entries {
        x.push(e("Writer::insert", Res::Unit));
    }
    if case.spec.knobs.ctor != 2 && case.spec.knobs.ctor != 3 && case.spec.knobs.fin == 1 {
        x.push(e("Writer::finish", Res::Unit));
    } else {
        x.push(e("Writer::into_inner", Res::Unit));
    }
    x.push(("sink.bytes".to_string(), sink_bytes.cloned()));
    x.extend(expect_open(entries.len(), case.spec.knobs.codec, case.v1));
    for i in 0..entries.len() {
        x.push(e("move_on_next", ent(entries, Some(i))));
    }
    x.push(e("move_on_next", Res::None));
    x.extend(expect_open(entries.len(), case.spec.knobs.codec, case.v1));
    for i in (0..entries.len()).rev() {
        x.push(e("move_on_prev", ent(entries, Some(i))));
    }
    x.push(e("move_on_prev", Res::None));
    x
}

#[derive(Clone, Copy)]
struct MCur {
    pos: Option<usize>,
    unspec: bool,
}

pub struct CursorModelStats {
    pub window_entries: u64,
    pub abs_from_window: u64,
    pub judged: u64,
    pub unjudged: u64,
}

pub fn expect_cursor(case: &CursorCase, entries: &[(Vec<u8>, Vec<u8>)], st: &mut CursorModelStats) -> Vec<Exp> {
    expect_cursor_with_errs(case, entries, st, &std::collections::BTreeSet::new())
}

/// `errs`: indices of transcript records that returned an injected-fault Err. Such a call is not
/// judged and leaves its cursor in the "unspecified" window until the next absolute move or reset.
pub fn expect_cursor_with_errs(
    case: &CursorCase,
    entries: &[(Vec<u8>, Vec<u8>)],
    st: &mut CursorModelStats,
    errs: &std::collections::BTreeSet<usize>,
) -> Vec<Exp> {
    let mut x = expect_open(entries.len(), case.spec.knobs.codec, case.v1);
    let n = entries.len();
    let mut curs = vec![MCur { pos: None, unspec: false }];
    for step in &case.steps {
        let idx = step.cur as usize % curs.len();
        if case.fresh_each {
            x.push(e("reset", Res::Unit));
            curs[idx] = MCur { pos: None, unspec: false };
        }
        let mut c = curs[idx];
        let mut abs = |c: &mut MCur, name: &str, r: Option<usize>, x: &mut Vec<Exp>, st: &mut CursorModelStats| {
            if errs.contains(&x.len()) {
                c.unspec = true;
                st.unjudged += 1;
                x.push((name.to_string(), None));
                return;
            }
            if c.unspec {
                st.abs_from_window += 1;
            }
            match r {
                Some(i) => {
                    c.pos = Some(i);
                    c.unspec = false;
                }
                None => {
                    c.unspec = true;
                    st.window_entries += 1;
                }
            }
            st.judged += 1;
            x.push(e(name, ent(entries, r)));
        };
        let rel = |c: &mut MCur, name: &str, fwd: bool, x: &mut Vec<Exp>, st: &mut CursorModelStats| {
            if errs.contains(&x.len()) {
                c.unspec = true;
            }
            if c.unspec {
                st.unjudged += 1;
                x.push((name.to_string(), None));
                return;
            }
            let r = match c.pos {
                None => {
                    if n == 0 {
                        None
                    } else if fwd {
                        Some(0)
                    } else {
                        Some(n - 1)
                    }
                }
                Some(i) => {
                    if fwd {
                        if i + 1 < n {
                            Some(i + 1)
                        } else {
                            None
                        }
                    } else {
                        i.checked_sub(1)
                    }
                }
            };
            match r {
                Some(i) => c.pos = Some(i),
                None => {
                    c.unspec = true;
                    st.window_entries += 1;
                }
            }
            st.judged += 1;
            x.push(e(name, ent(entries, r)));
        };
        match &step.op {
            Op::First => abs(&mut c, "move_on_first", if n > 0 { Some(0) } else { None }, &mut x, st),
            Op::Last => abs(&mut c, "move_on_last", n.checked_sub(1), &mut x, st),
            Op::Ge(q) => abs(&mut c, "move_on_key_greater_than_or_equal_to", ceiling(entries, &q.0), &mut x, st),
            Op::Le(q) => abs(&mut c, "move_on_key_lower_than_or_equal_to", floor(entries, &q.0), &mut x, st),
            Op::Eq(q) => abs(&mut c, "move_on_key_equal_to", exact(entries, &q.0), &mut x, st),
            Op::Next => rel(&mut c, "move_on_next", true, &mut x, st),
            Op::Prev => rel(&mut c, "move_on_prev", false, &mut x, st),
            Op::NextN(k) => {
                for _ in 0..*k {
                    rel(&mut c, "move_on_next", true, &mut x, st);
                }
            }
            Op::PrevN(k) => {
                for _ in 0..*k {
                    rel(&mut c, "move_on_prev", false, &mut x, st);
                }
            }
            Op::Reset => {
                c = MCur { pos: None, unspec: false };
                x.push(e("reset", Res::Unit));
            }
            Op::Current => {
                if c.unspec {
                    st.unjudged += 1;
                    x.push(("current".to_string(), None));
                } else {
                    st.judged += 1;
                    x.push(e("current", ent(entries, c.pos)));
                }
            }
            Op::CloneFrom => {
                x.push(e("clone", Res::Unit));
                if curs.len() < 4 {
                    curs.push(c);
                } else {
                    let last = curs.len() - 1;
                    curs[last] = c;
                }
            }
        }
        curs[idx] = c;
    }
    x
}

fn in_start(b: &Bnd, k: &[u8]) -> bool {
    match b {
        Bnd::Unbounded => true,
        Bnd::Included(a) => k >= a.0.as_slice(),
        Bnd::Excluded(a) => k > a.0.as_slice(),
    }
}

fn in_end(b: &Bnd, k: &[u8]) -> bool {
    match b {
        Bnd::Unbounded => true,
        Bnd::Included(a) => k <= a.0.as_slice(),
        Bnd::Excluded(a) => k < a.0.as_slice(),
    }
}

pub fn query_matches(q: &Query, entries: &[(Vec<u8>, Vec<u8>)]) -> Vec<usize> {
    let mut idx: Vec<usize> = match q {
        Query::Range { start, end, .. } => {
            (0..entries.len()).filter(|i| in_start(start, &entries[*i].0) && in_end(end, &entries[*i].0)).collect()
        }
        Query::Prefix { prefix, .. } => (0..entries.len()).filter(|i| entries[*i].0.starts_with(&prefix.0)).collect(),
    };
    let rev = match q {
        Query::Range { rev, .. } => *rev,
        Query::Prefix { rev, .. } => *rev,
    };
    if rev {
        idx.reverse();
    }
    idx
}

pub fn expect_iter(case: &IterCase, entries: &[(Vec<u8>, Vec<u8>)]) -> Vec<Exp> {
    let mut x = vec![e(
        "Reader::new",
        Res::Meta { len: entries.len() as u64, codec: case.spec.knobs.codec, version: if case.v1 { 0 } else { 1 } },
    )];
    if case.interleave {
        let name = |q: &Query| match q {
            Query::Range { rev: false, .. } => "into_range_iter",
            Query::Range { rev: true, .. } => "into_rev_range_iter",
            Query::Prefix { rev: false, .. } => "into_prefix_iter",
            Query::Prefix { rev: true, .. } => "into_rev_prefix_iter",
        };
        for pair in case.queries.chunks(2) {
            let lists: Vec<Vec<usize>> = pair.iter().map(|q| query_matches(q, entries)).collect();
            for q in pair {
                x.push(e(name(q), Res::Unit));
            }
            let mut at = vec![0usize; pair.len()];
            let mut done = vec![false; pair.len()];
            while done.iter().any(|d| !*d) {
                for j in 0..pair.len() {
                    if done[j] {
                        continue;
                    }
                    if at[j] < lists[j].len() {
                        x.push(e("iter.next", ent(entries, Some(lists[j][at[j]]))));
                        at[j] += 1;
                    } else {
                        x.push(e("iter.next", Res::None));
                        done[j] = true;
                    }
                }
            }
        }
        return x;
    }
    for q in &case.queries {
        let name = match q {
            Query::Range { rev: false, .. } => "into_range_iter",
            Query::Range { rev: true, .. } => "into_rev_range_iter",
            Query::Prefix { rev: false, .. } => "into_prefix_iter",
            Query::Prefix { rev: true, .. } => "into_rev_prefix_iter",
        };
        x.push(e(name, Res::Unit));
        for i in query_matches(q, entries) {
            x.push(e("iter.next", ent(entries, Some(i))));
        }
        x.push(e("iter.next", Res::None));
    }
    x
}

/// Model of "merge values for one key": returns the value the merge function must produce.
pub fn merge_model(mf: MergeKind, vals: &[Vec<u8>]) -> Vec<u8> {
    match mf {
        MergeKind::Concat => vals.concat(),
        MergeKind::First => vals[0].clone(),
        MergeKind::Last => vals[vals.len() - 1].clone(),
        MergeKind::Join => vals.join(&0x1Fu8),
        MergeKind::BorrowedPrefix => {
            if vals.len() == 1 {
                vals[0].clone()
            } else {
                vals[0][..vals[0].len() / 2].to_vec()
            }
        }
    }
}

/// union of sources: key -> values in source order
pub fn merge_union(sources: &[Vec<(Vec<u8>, Vec<u8>)>]) -> BTreeMap<Vec<u8>, Vec<Vec<u8>>> {
    let mut m: BTreeMap<Vec<u8>, Vec<Vec<u8>>> = BTreeMap::new();
    for s in sources {
        for (k, v) in s {
            m.entry(k.clone()).or_default().push(v.clone());
        }
    }
    m
}

pub fn expect_merge(case: &MergeCase, sources: &[Vec<(Vec<u8>, Vec<u8>)>], sink_bytes: Option<&Res>) -> Vec<Exp> {
    let mut x = Vec::new();
    for (i, s) in sources.iter().enumerate() {
        x.extend(expect_open(s.len(), case.sources[i].knobs.codec, false));
    }
    let union = merge_union(sources);
    let merged: Vec<(Vec<u8>, Vec<u8>)> = union.iter().map(|(k, vs)| (k.clone(), merge_model(case.mf, vs))).collect();
    if case.out_mode == 0 {
        x.push(e("Merger::into_stream_merger_iter", Res::Unit));
        for (k, v) in &merged {
            x.push(e("MergerIter::next", Res::Entry(k.clone(), v.clone())));
        }
        x.push(e("MergerIter::next", Res::None));
    } else {
        x.push(e("Merger::write_into_stream_writer", Res::Unit));
        x.push(e("Writer::finish", Res::Unit));
        x.push(("sink.bytes".to_string(), sink_bytes.cloned()));
        x.extend(expect_open(merged.len(), case.out_knobs.codec, false));
        for (k, v) in &merged {
            x.push(e("move_on_next", Res::Entry(k.clone(), v.clone())));
        }
        x.push(e("move_on_next", Res::None));
    }
    x
}

/// Compares a transcript with its expectation. Returns (index, oracle id, message) of the first mismatch.
pub fn compare(recs: &[Rec], exp: &[Exp]) -> Option<(usize, String, String)> {
    compare_allowing(recs, exp, &std::collections::BTreeSet::new())
}

pub fn compare_allowing(recs: &[Rec], exp: &[Exp], allowed_errs: &std::collections::BTreeSet<usize>) -> Option<(usize, String, String)> {
    for (i, r) in recs.iter().enumerate() {
        if allowed_errs.contains(&i) && r.res.is_err() {
            continue;
        }
        if let Res::Panic(m) = &r.res {
            return Some((i, format!("panic.{}", r.op), format!("call #{} {} panicked: {}", i, r.op, m)));
        }
        if let Res::Err(er) = &r.res {
            return Some((
                i,
                format!("err.{}", r.op),
                format!("call #{} {} returned an error although no component failed: {}", i, r.op, er.text),
            ));
        }
        match exp.get(i) {
            None => {
                return Some((i, "extra-call".into(), format!("call #{} {} -> {} not expected (model ended)", i, r.op, r.res.short())))
            }
            Some((op, want)) => {
                if *op != r.op {
                    return Some((
                        i,
                        "harness-desync".into(),
                        format!("call #{} is {} but the model expected {}", i, r.op, op),
                    ));
                }
                if let Some(w) = want {
                    if *w != r.res {
                        return Some((
                            i,
                            format!("result.{}", r.op),
                            format!("call #{} {} returned {} but the model says {}", i, r.op, r.res.short(), w.short()),
                        ));
                    }
                }
            }
        }
    }
    if recs.len() < exp.len() {
        let (op, w) = &exp[recs.len()];
        return Some((
            recs.len(),
            "missing-call".into(),
            format!("transcript ended after {} calls; model expected {} -> {:?}", recs.len(), op, w.as_ref().map(|r| r.short())),
        ));
    }
    None
}
