//! Dispatch: property id -> generator and checker, budgets and level.

use crate::case::Case;
use crate::gen::Tier;
use crate::props_file::Verdict;
use crate::rng::Rng;
use crate::run::Stats;

pub const CLAIMED: &[&str] =
    &["C01", "C02", "C03", "C04", "C05", "C06", "C07", "C08", "C09", "C10", "C11", "C12", "C13", "C15", "C16", "C17", "C18"];

/// Generation by run index: a few run indices are reserved for scenarios that must be present
/// in every batch (C08: hook-free real-scale runs).
/// Byte-wise I/O schedules cost one simulated call per byte: a case holding a multi-megabyte key or
/// value (the 2^21 framing boundary) runs under whole-buffer transfers (buffering is kept).
fn tame_huge(mut case: Case) -> Case {
    use crate::case::*;
    fn huge(e: &Entries) -> bool {
        match e {
            Entries::Literal(v) => v.iter().any(|(k, v)| k.0.len() >= (1 << 20) || v.0.len() >= (1 << 20)),
            Entries::Counter { .. } => false,
            Entries::Noise { vlen, .. } => *vlen >= (1 << 20),
        }
    }
    let h = match &case {
        Case::File(c) => huge(&c.spec.entries),
        Case::Cursor(c) => huge(&c.spec.entries),
        Case::Iter(c) => huge(&c.spec.entries),
        Case::Merge(c) => c.sources.iter().any(|s| huge(&s.entries)),
        Case::Sort(c) => huge(&c.inserts),
        Case::Open(_) => false,
    };
    if h {
        let fix = |e: &mut crate::env::EnvPlan| e.modes = vec![crate::env::IoMode::Whole];
        // every result holding the multi-megabyte entry is copied into the transcript: keep such runs short
        match &mut case {
            Case::File(c) => fix(&mut c.env),
            Case::Cursor(c) => {
                fix(&mut c.env);
                if c.fresh_each {
                    // seeks: keep the probes that surround the multi-megabyte entries (their keys, the
                    // neighbouring keys, immediate successors and predecessors), then a few of the others
                    if let Entries::Literal(v) = &c.spec.entries {
                        let mut probes: Vec<Vec<u8>> = Vec::new();
                        for (i, (_, val)) in v.iter().enumerate() {
                            if val.0.len() >= (1 << 20) {
                                for j in i.saturating_sub(2)..(i + 3).min(v.len()) {
                                    let k = v[j].0 .0.clone();
                                    let mut succ = k.clone();
                                    succ.push(0);
                                    probes.push(crate::gen::pred(&k));
                                    probes.push(succ);
                                    probes.push(k);
                                }
                            }
                        }
                        probes.truncate(14);
                        let mut steps = Vec::new();
                        for q in probes {
                            for op in [Op::Ge(B(q.clone())), Op::Le(B(q.clone())), Op::Eq(B(q.clone()))] {
                                steps.push(CursorStep { cur: 0, op });
                            }
                        }
                        steps.extend(c.steps.iter().take(18).cloned());
                        c.steps = steps;
                    }
                }
                c.steps.truncate(60);
                for st in c.steps.iter_mut() {
                    if let Op::NextN(k) | Op::PrevN(k) = &mut st.op {
                        *k = (*k).min(12);
                    }
                }
            }
            Case::Iter(c) => {
                fix(&mut c.env);
                c.queries.truncate(6);
            }
            Case::Merge(c) => fix(&mut c.env),
            Case::Sort(c) => fix(&mut c.env),
            Case::Open(_) => {}
        }
    }
    case
}

pub fn gen_case_indexed(prop: &str, rng: &mut Rng, tier: Tier, run: u64) -> Case {
    tame_huge(gen_case_indexed_raw(prop, rng, tier, run))
}

fn gen_case_indexed_raw(prop: &str, rng: &mut Rng, tier: Tier, run: u64) -> Case {
    if prop == "C08" {
        let reserved = if tier == Tier::Quick { 3 } else { 12 };
        if run < reserved {
            let mut c = crate::props_sort::gen_c08_with(rng, tier, true);
            use crate::case::Entries;
            if run % 3 == 2 {
                // no reallocation, a budget that is not a multiple of anything, and m equal entries
                // (5 <= m <= 200, each <= budget/4) whose sizes add up to just above the budget
                // (budget+1 ..= budget+m): a buffer that is only a few dozen bytes larger than the budget
                // — rounding to a page, to a cache line, a forgotten bookkeeping slot — takes all m
                // of them before it spills, the stated bound allows m-1
                if let Case::Sort(s) = &mut c {
                    s.knobs.allow_realloc = false;
                    let b = *rng.pick(&[10 * 1024 * 1024 + 1usize, 12_345_678, 15_000_000, 11_000_001, 10_485_777, 13_371_337]);
                    s.knobs.threshold_req = Some(b);
                    let m = rng.log_uniform(5, 200);
                    let per = (b as u64 + 1 + m - 1) / m;
                    let cycles = rng.range(3, 6);
                    s.inserts = Entries::Counter { n: m * cycles + rng.range(0, m), width: 8, start: 1, stride: 7919, vlen: (per - 8) as u32 };
                }
                return c;
            }
            if run % 3 == 1 {
                // odd indices: preallocated buffer (no reallocation) with a budget that is not a multiple
                // of any large power of two
                if let Case::Sort(s) = &mut c {
                    s.knobs.allow_realloc = false;
                    s.knobs.threshold_req = Some(*rng.pick(&[15_000_000usize, 12_345_678, 10 * 1024 * 1024 + 1, 11_000_001]));
                    // large entries: the 16-byte bookkeeping per entry is then under 1 % of the volume, so the
                    // measured volume tracks the buffer size closely
                    if let Entries::Counter { n, vlen, .. } = &mut s.inserts {
                        let total = *n * (*vlen as u64 + 8);
                        *vlen = 2000;
                        *n = total / 2008;
                    }
                }
            }
            return c;
        }
    }
    if prop == "C06" && run < 1 {
        // "any number of sources": a little more than 2^16 one-entry sources over two keys
        use crate::case::*;
        let k = 65536 + rng.urange(1, 40);
        let mut sources = Vec::with_capacity(k);
        for i in 0..k {
            let key = if rng.chance(1, 2) { b"a".to_vec() } else { b"b".to_vec() };
            sources.push(FileSpec { knobs: Knobs::default_knobs(), entries: Entries::Literal(vec![(B(key), B(crate::gen::record(i as u32, 0)))]) });
        }
        return Case::Merge(MergeCase {
            attach: vec![1; k],
            sources,
            mf: crate::env::MergeKind::Concat,
            out_mode: 0,
            out_knobs: Knobs::default_knobs(),
            env: crate::env::EnvPlan::whole(),
        });
    }
    if (prop == "C12" || prop == "C11") && run < if tier == Tier::Quick { 1 } else { 3 } {
        // blocks beyond the sizes of typical staging buffers: two entries of 17-24 MiB of incompressible
        // bytes, so that every codec's block stays above 16 MiB; read through a cursor (C12: every
        // seek/read of the source fails once; C11: the reads are split and interrupted)
        use crate::case::*;
        let vlen = rng.range(17 << 20, 24 << 20) as u32;
        let _ = rng.below(5);
        // lz4 first (its frame decoder reads from the source as it goes), then zstd, snappy
        let codec = [3u8, 4, 5, 1][run as usize % 4];
        let spec = FileSpec {
            knobs: Knobs { codec, level: 1, block_size: *rng.pick(&[None, Some(1024)]), interval: None, levels: *rng.pick(&[0u8, 1, 2]), ctor: 0, fin: 0 },
            entries: Entries::Noise { n: 2, width: 4, start: 7, stride: 5, vlen, seed: rng.next_u64() },
        };
        let k = |x: u32| B(x.to_be_bytes().to_vec());
        let mut steps = vec![
            CursorStep { cur: 0, op: Op::First },
            CursorStep { cur: 0, op: Op::Next },
            CursorStep { cur: 0, op: Op::Next },
            CursorStep { cur: 0, op: Op::Last },
            CursorStep { cur: 0, op: Op::Prev },
            CursorStep { cur: 0, op: Op::Ge(k(8)) },
            CursorStep { cur: 0, op: Op::Le(k(11)) },
            CursorStep { cur: 0, op: Op::Eq(k(7)) },
        ];
        let mut spec = spec;
        if prop == "C12" {
            // every component call of the scenario is failed in turn (twice): one entry, one move
            if let Entries::Noise { n, .. } = &mut spec.entries {
                *n = 1;
            }
            steps.truncate(1);
        }
        return Case::Cursor(CursorCase { spec, env: crate::env::EnvPlan::whole(), steps, fresh_each: false, v1: false, sparse_hole: None });
    }
    if (prop == "C09" || prop == "C02") && run < if tier == Tier::Quick { 3 } else { 9 } {
        // a file whose blocks and index lie beyond 4 GiB (sparse sink: filler bodies are holes)
        return crate::props_file::gen_big(rng, [0u8, 1, 2][run as usize % 3]);
    }
    if prop == "C17" && run < if tier == Tier::Quick { 1 } else { 3 } {
        // hook-free sorter at the shipped defaults (1 GiB budget, growing buffer): ~150 MB of inserts take
        // the in-memory buffer through every doubling up to 256 MiB
        use crate::case::*;
        return Case::Sort(SortCase {
            inserts: Entries::Counter { n: rng.range(1_300_000, 1_600_000), width: 8, start: 1, stride: 7919, vlen: *rng.pick(&[90u32, 100, 110]) },
            knobs: SortKnobs {
                raw_threshold: None,
                threshold_req: None,
                init_cap: None,
                allow_realloc: true,
                max_nb_chunks: None,
                unstable: rng.chance(1, 2),
                parallel: false,
                chunk_codec: None,
                chunk_level: None,
                block_size: None,
                interval: None,
                levels: None,
                creator: 0,
            },
            alt_knobs: vec![],
            mf: crate::env::MergeKind::First,
            consume: 0,
            out_knobs: Knobs::default_knobs(),
            env: crate::env::EnvPlan::whole(),
        });
    }
    if prop == "C07" && run < if tier == Tier::Quick { 2 } else { 6 } {
        // hook-free sorter at the shipped thresholds: 10 MiB minimum budget, 128 KiB initial buffer,
        // ~16 MB of inserts over 65536 distinct keys (so chunks overlap and values are merged)
        use crate::case::*;
        // even run indices: tiny entries, so one in-memory run holds several hundred thousand of them
        let (n, vlen) = if run % 2 == 0 { (rng.range(450_000, 600_000), *rng.pick(&[4u32, 8])) } else { (rng.range(140_000, 170_000), 100) };
        let par = if run % 2 == 0 { true } else { rng.chance(1, 2) };
        return Case::Sort(SortCase {
            // even runs: only 256 distinct keys, i.e. thousands of equal keys per in-memory run
            inserts: Entries::Counter { n, width: if run % 2 == 0 { 1 } else { 2 }, start: rng.range(0, 1000), stride: *rng.pick(&[1u64, 7, 257]), vlen },
            knobs: SortKnobs {
                raw_threshold: None,
                threshold_req: Some(*rng.pick(&[0usize, 1024, 10 * 1024 * 1024])),
                init_cap: None,
                allow_realloc: rng.chance(1, 2),
                max_nb_chunks: *rng.pick(&[None, Some(2)]),
                unstable: false,
                parallel: par,
                chunk_codec: *rng.pick(&[None, Some(5)]),
                chunk_level: None,
                block_size: None,
                interval: None,
                levels: *rng.pick(&[None, Some(2)]),
                creator: *rng.pick(&[0u8, 1]),
            },
            alt_knobs: vec![],
            // even runs: concatenation, which exposes the order of every value of every run
            mf: if run % 2 == 0 { crate::env::MergeKind::Concat } else { *rng.pick(&[crate::env::MergeKind::First, crate::env::MergeKind::Last]) },
            consume: rng.below(3) as u8,
            out_knobs: Knobs::default_knobs(),
            env: crate::env::EnvPlan::whole(),
        });
    }
    gen_case(prop, rng, tier)
}

pub fn gen_case(prop: &str, rng: &mut Rng, tier: Tier) -> Case {
    match prop {
        "C01" => crate::props_file::gen_c01(rng, tier),
        "C02" => crate::props_cursor::gen_c02(rng, tier),
        "C03" => crate::props_cursor::gen_c03(rng, tier),
        "C04" => crate::props_iter::gen_c04(rng, tier),
        "C05" => crate::props_iter::gen_c05(rng, tier),
        "C06" => crate::props_merge::gen_c06(rng, tier),
        "C07" => crate::props_sort::gen_c07(rng, tier),
        "C08" => crate::props_sort::gen_c08(rng, tier),
        "C09" => crate::props_file::gen_c09(rng, tier),
        "C10" => crate::props_file::gen_c10(rng, tier),
        "C11" => crate::props_env::gen_c11(rng, tier),
        "C12" => crate::props_env::gen_c12(rng, tier),
        "C13" => crate::props_file::gen_c13(rng, tier),
        "C15" => crate::props_file::gen_c15(rng, tier),
        "C16" => crate::props_cursor::gen_c16(rng, tier),
        "C17" => crate::props_env::gen_c17(rng, tier),
        "C18" => crate::props_file::gen_c18(rng, tier),
        _ => panic!("unknown property {}", prop),
    }
}

pub fn check_case(prop: &str, case: &Case, st: &mut Stats) -> Verdict {
    match prop {
        "C01" => crate::props_file::check_c01(case, st),
        "C02" => crate::props_cursor::check_c02(case, st),
        "C03" => crate::props_cursor::check_c03(case, st),
        "C04" => crate::props_iter::check_iter("C04", case, st),
        "C05" => crate::props_iter::check_iter("C05", case, st),
        "C06" => crate::props_merge::check_c06(case, st),
        "C07" => crate::props_sort::check_c07(case, st),
        "C08" => crate::props_sort::check_c08(case, st),
        "C09" => crate::props_file::check_c09(case, st),
        "C10" => crate::props_file::check_c10(case, st),
        "C11" => crate::props_env::check_c11(case, st),
        "C12" => crate::props_env::check_c12(case, st),
        "C13" => crate::props_file::check_c13(case, st),
        "C15" => crate::props_file::check_c15(case, st),
        "C16" => crate::props_cursor::check_c16(case, st),
        "C17" => crate::props_env::check_c17(case, st),
        "C18" => crate::props_file::check_c18(case, st),
        _ => panic!("unknown property {}", prop),
    }
}

/// Number of seeded runs per tier.
pub fn budget(prop: &str, tier: Tier) -> u64 {
    let (q, t) = match prop {
        "C01" => (30_000, 400_000),
        "C02" => (4_000, 60_000),
        "C03" => (40_000, 600_000),
        "C04" => (5_000, 100_000),
        "C05" => (5_000, 100_000),
        "C06" => (16_000, 400_000),
        "C07" => (8_000, 40_000),
        "C08" => (6_000, 40_000),
        "C09" => (12_000, 200_000),
        "C10" => (5_000, 100_000),
        "C11" => (6_000, 150_000),
        "C12" => (1_200, 12_000),
        "C13" => (3_000, 40_000),
        "C15" => (60_000, 600_000),
        "C16" => (12_000, 120_000),
        "C17" => (12_000, 80_000),
        "C18" => (60_000, 800_000),
        _ => (1000, 10_000),
    };
    match tier {
        Tier::Quick => q,
        Tier::Thorough => t,
    }
}

pub fn level(prop: &str) -> &'static str {
    match prop {
        "C12" | "C13" => "fault_enumeration",
        _ => "exploration",
    }
}

pub fn rule(prop: &str) -> &'static str {
    match prop {
        "C01" => "one evaluation = one seeded (entries, writer knobs, I/O schedule) written through the simulated sink, reopened through a simulated source and scanned both ways against the model; distinct = distinct emitted file bytes; non-trivial = at least 2 entries",
        "C02" => "one evaluation = one file plus its probe set (every stored key, gaps, before-first, after-last, prefixes/extensions) x {GE,LE,EQ} on reset cursors against model ceiling/floor/match; distinct = (file bytes, probe count); non-trivial = >=2 entries and >=6 seeks",
        "C03" => "one evaluation = one operation history over up to 3 cursors on one file, judged op by op against the reference model (unjudged only inside the 'after None' window); distinct = distinct (cursor fingerprint, operation kind) transitions from the H4 hook; non-trivial = histories with >=3 judged operations (distinct transcript digests)",
        "C04" => "one evaluation = one file with its range queries (all 9 bound shapes, both directions, inverted/equal/empty ranges); distinct = distinct (file, query); non-trivial = queries matching a non-empty proper subset of the entries",
        "C05" => "one evaluation = one file with its prefix queries (empty, 0xFF-terminated, longer than any key, stored keys, extensions), both directions; distinct = distinct (file, query); non-trivial = queries matching a non-empty proper subset",
        "C06" => "one evaluation = one k-way merge (k in 0..=6, per-source writer knobs, add/push/extend mix, iterator or stream-writer output) judged against the model union and the recorded merge calls; distinct = distinct transcripts; non-trivial = >=2 sources with at least one shared key",
        "C07" => "one evaluation = one insert history run under 3 sorter knob settings (spill threshold, initial capacity, realloc, max chunks, sort algorithm, parallel, chunk codec/layout, creator) and one consumption mode, each judged against the sort-and-merge model; distinct = distinct (knobs, history); states = distinct (spills, reallocs, max live chunks, max_nb_chunks) tuples; non-trivial = >=2 inserts",
        "C08" => "one evaluation = one long insert history in the small-entry regime with monitors at every chunk create/drop (volume since last spill, live chunks, accounting through the creator), plus real-scale runs without hooks; distinct = distinct (knobs, volume); non-trivial = runs with >=2 creates",
        "C09" => "one evaluation = one file checked by the independent decoder (tiling, framing, offset tables, index linkage, trailer), read by grenad 0.4.7, and its 0.4.7-written twin read by the current reader; distinct = distinct file bytes; non-trivial = >=3 blocks",
        "C10" => "one evaluation = one V1-trailer twin queried (scan, seeks, history or iterators) against the model and against its V2 twin; distinct/non-trivial = distinct (file, transcript) with more than 4 calls",
        "C11" => "one evaluation = one execution of a scenario (file/cursor/iter/merge/sort) under one non-trivial I/O schedule (Chop{1}, the generated palette, ChopIntr) compared call by call and byte by byte with the whole-buffer reference; distinct = distinct reference transcripts; non-trivial = more than 6 public calls",
        "C12" => "one evaluation = one execution with exactly one (or two) component calls failing; for every generated scenario EVERY call index k of the shared clock over read/write/flush/seek/create/merge is failed once (exhaustive over k per scenario); distinct = distinct (public API call, failed component call kind, component role) triples that received a fault; non-trivial: all such triples",
        "C13" => "one evaluation = one Reader::new on a byte string: every truncation length of every generated file (exhaustive per file), every single-byte corruption of its trailer (22x255 or 21x255), literal writer crashes, and arbitrary/structured strings, each judged by an independent validity predicate; distinct = distinct files whose whole crash-point space was enumerated",
        "C15" => "one evaluation = one file whose every data block and every index block at depth >= 2 is re-measured by the independent decoder against the cut rule; distinct = distinct file bytes; non-trivial = >=2 subject blocks",
        "C16" => "one evaluation = one history on a file of up to 2e5 entries with the I/O trace of every public call checked (loads <= 2(levels+2), reads inside the sought block, open reads only the trailer); distinct = distinct (file, transcript); non-trivial = >=4 blocks and >=3 operations",
        "C17" => "one evaluation = one sorter or read-path scenario executed under the checking allocator (layout-on-free, canary, double free, leak, armed null) with grenad's overflow checks on; distinct = distinct scenario summaries; non-trivial = sorter runs with >=2 inserts or any read-path run",
        "C18" => "one evaluation = one insert sequence with 0-3 injected order faults; either a panic at/after the first fault or every decoded block strictly ascending; distinct = distinct (outcome, bytes, fault index); non-trivial = sequences with at least one order fault",
        _ => "",
    }
}
